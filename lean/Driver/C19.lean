import PwVerif.Model.StorageTree
import PwVerif.Model.Proto
open PwVerif PwVerif.Storage PwVerif.Proto

/-- the variants are run side by side on the same op stream; every op prints one line per
variant (`I …` = inPlace/pinned, `A …` = atomicReplace with the delete that ignores leftovers (before `1e4658d`),
`S …` = atomicReplace with the delete that sweeps leftovers (before `d82d12e`), `C …` = S + the clean-up of a
nested store climbs to the directories it emptied = the tree as it is) -/
structure St where
  wi : TWorld
  wa : TWorld
  ws : TWorld
  wc : TWorld
  wd : TWorld           -- `D …` = C + the storage APPENDS its extension to the name it is given = the tree as it is
  dotted : Bool         -- this case uses two explicit names that differ by a dotted tail (`layout dotted`)
  pair : Bool           -- ... or two unrelated explicit names in one directory (`layout pair`)

def init : St := ⟨.init Cls.graph, .init Cls.graph, .init Cls.graph, .init Cls.graph, .init Cls.graph, false, false⟩

def showFile : FileSt → String
  | .absent => "absent" | .empty => "empty" | .torn => "torn"
  | .good c v => s!"good:{c.id}:{v}"

def showSlot : Slot → String
  | .pckl => "pckl" | .cpckl => "cpckl" | .pcklTmp => "pt" | .cpcklTmp => "ct"

def showStep : Step → String
  | .mkdir => "mkdir" | .open s => "open:" ++ showSlot s | .write s => "write:" ++ showSlot s
  | .close s _ _ => "close:" ++ showSlot s | .unlink s => "unlink:" ++ showSlot s
  | .replace a b => "replace:" ++ showSlot a ++ ">" ++ showSlot b | .rmdirIfEmpty => "rmdir"

def showFS (fs : FS) : String :=
  s!"dir={if fs.dir then 1 else 0} pckl={showFile fs.pckl} cpckl={showFile fs.cpckl} pt={showFile fs.pcklTmp} ct={showFile fs.cpcklTmp}"

def showLoad : NodeLoadRes → String
  | .loaded v => s!"loaded:{v}" | .notFound => "notFound" | .corrupt => "corrupt"
  | .classMismatch => "classMismatch"

def showRes : Res → String
  | .saved => "saved" | .saveRaised => "saveRaised" | .crashed => "crashed" | .deleted => "deleted"
  | .fresh => "fresh" | .load r => showLoad r
  | .foreign n r => s!"{showLoad r} foreign={n.cls.id}:{n.ver}"

/-- what `load(cloudpickle_fallback=False)` into a new object of the graph's class gives -/
def showLoadNF (cls : Cls) (fs : FS) : String :=
  match storageLoadF false fs with
  | .ok c v => if c.id == cls.id then s!"loaded:{v}" else "classMismatch"
  | .notFound => "notFound"
  | .corrupt => "corrupt"

def parseRel : String → Option ClassRel
  | "same" => some .same | "samename" => some .sameName | "diffname" => some .diffName
  | "sub" => some .subclass | "super" => some .superclass | _ => none

def parseContent : String → Option Content
  | "ok" => some .ok | "pf" => some .pickleFails | "bf" => some .bothFail
  | "nfpf" => some .nfPickleFails | "nfni" => some .nfNotImportable | _ => none

def storePrefix : Store → String
  | .main => "" | .recovery => "r." | .childA => "a." | .childB => "b."

def storeDirName : Store → String
  | .main => "" | .recovery => "" | .childA => ":a" | .childB => ":b"

/-- a flat step name, addressed to a store: `open:pt` → `open:r.pt`, `mkdir` → `mkdir:a`, `rmdir` → `rmdir:a` -/
def showStepAt (s : Store) : Step → String
  | .mkdir => "mkdir" ++ storeDirName s
  | .open x => "open:" ++ storePrefix s ++ showSlot x
  | .write x => "write:" ++ storePrefix s ++ showSlot x
  | .close x _ _ => "close:" ++ storePrefix s ++ showSlot x
  | .unlink x => "unlink:" ++ storePrefix s ++ showSlot x
  | .replace a b => "replace:" ++ storePrefix s ++ showSlot a ++ ">" ++ storePrefix s ++ showSlot b
  | .rmdirIfEmpty => "rmdir" ++ storeDirName s

/-- only what somebody could see: the removal of a file that is not there is not an event -/
def effSteps (fs : FS) : List Step → List Step
  | [] => []
  | .unlink x :: r =>
    if fs.get x == .absent then effSteps fs r else .unlink x :: effSteps ((Step.unlink x).apply fs) r
  | st :: r => st :: effSteps (st.apply fs) r

/-- the file-system calls one flat op on store `s` performs, as the harness sees them on the real code (a `rmdir`
shows only when a directory is actually removed) -/
def trace1 (tc : TCfg) (t : Tree) (s : Store) (cls : Cls) (op : Op) : List String :=
  let cfg := tc.cfg
  let fs := t.view s
  let busy := t.busy s
  let t' := (apply1 tc t s ⟨cls, 0⟩ op).1
  let climbed := if t.gdir && !t'.gdir && (s == .childA || s == .childB) then ["rmdir"] else
    -- `g/` was created by `mkdir(parents=True)` of the child and removed again by the climbing clean-up
    if !t.gdir && !t'.gdir && tc.climb && (s == .childA || s == .childB) && op.isSave then ["rmdir"] else []
  match op with
  | .save c v =>
    let st := saveSteps cfg.saveMode c cls v
    let fs1 := runSteps fs st
    (effSteps fs st).map (showStepAt s) ++ (if fs1.noFiles && !busy then ["rmdir" ++ storeDirName s] else []) ++ climbed
  | .crash c v k => (effSteps fs ((saveSteps cfg.saveMode c cls v).take k)).map (showStepAt s)
  | .delete =>
    let st := if hasSaved fs || (cfg.sweep && hasLeftover fs) then deleteSteps cfg.saveMode else []
    let fs1 := runSteps fs st
    (effSteps fs st).map (showStepAt s) ++ (if fs1.dir && fs1.noFiles && !busy then ["rmdir" ++ storeDirName s] else []) ++ climbed
  | _ => []

def ttrace (tc : TCfg) (w : TWorld) : TOp → List String
  | .on s op => trace1 tc w.tree s w.node.cls op
  | .ckpt c v =>
    let t1 := (apply1 tc w.tree .main w.node (.save c v)).1
    trace1 tc w.tree .main w.node.cls (.save c v) ++
      (if c.fails then trace1 tc t1 .recovery w.node.cls (.save c v) else [])
  | .ckptCrash c v k => trace1 tc w.tree .main w.node.cls (.crash c v k)
  | .fail c v => trace1 tc w.tree .recovery w.node.cls (.save c v)
  | .failCrash c v k => trace1 tc w.tree .recovery w.node.cls (.crash c v k)

def showFiles (f : Files) : String :=
  s!"{showFile f.pckl},{showFile f.cpckl},{showFile f.pcklTmp},{showFile f.cpcklTmp}"

def showTree (t : Tree) : String :=
  s!"{showFS (t.view .main)} | rec={showFiles t.recov} | a={if t.adir then 1 else 0}:{showFiles t.a} | b={if t.bdir then 1 else 0}:{showFiles t.b}"

def obs (tag : String) (tc : TCfg) (w : TWorld) (op : TOp) : TWorld × String :=
  let (w', rs) := tstep tc w op
  -- a foreign load: are the loading node's children / connections still what they were (`compLoad`)
  let kids := match op with
    | .on .main (.loadForeign c v) =>
      s!" kids={if (compLoad false ⟨⟨c, v⟩, true⟩ (w.tree.view .main)).1.attached then 1 else 0}"
    | _ => ""
  (w', s!"{tag} {"+".intercalate (rs.map showRes)} | {showTree w'.tree} | has={if hasSaved (w'.tree.view .main) then 1 else 0} hasnf={if hasSavedF false (w'.tree.view .main) then 1 else 0} nf={showLoadNF w'.node.cls (w'.tree.view .main)}{kids} | node={w'.node.ver} | steps={",".intercalate (ttrace tc w op)}")

def both (s : St) (op : TOp) : St × List String :=
  let (wi, li) := obs "I" ⟨Cfg.pinned, false⟩ s.wi op
  let (wa, la) := obs "A" ⟨Cfg.unswept, false⟩ s.wa op
  let (ws, ls) := obs "S" TCfg.unclimbed s.ws op
  let (wc, lc) := obs "C" TCfg.current s.wc op
  let (wd, ld) := obs "D" TCfg.current s.wd op   -- without dotted names the naming makes no difference
  ({ s with wi := wi, wa := wa, ws := ws, wc := wc, wd := wd }, [li, la, ls, lc, ld])

/-- one op under the primary / the neighbouring name of the dotted layout; physical file keys: `relax.v2.*` are the
`main` columns, `relax.*` the `rec` columns -/
def obsN (tag : String) (tc : TCfg) (m : NameMode) (w : TWorld) (name : Name) (op : Op) : TWorld × String :=
  let (w', r) := nstep tc m w name op
  let st := resolve m name
  let pv := w'.tree.view (resolve m .primary)
  let kids := match name, op with
    | .primary, .loadForeign c v =>
      s!" kids={if (compLoad false ⟨⟨c, v⟩, true⟩ (w.tree.view st)).1.attached then 1 else 0}"
    | _, _ => ""
  (w', s!"{tag} {showRes r} | {showTree w'.tree} | has={if hasSaved pv then 1 else 0} hasnf={if hasSavedF false pv then 1 else 0} nf={showLoadNF w'.node.cls pv}{kids} | node={w'.node.ver} | steps={",".intercalate (trace1 tc w.tree st w.node.cls op)}")

def bothN (s : St) (name : Name) (op : Op) : St × List String :=
  -- names without a dot were never collapsed: every variant keeps them apart
  let old : NameMode := if s.pair then .append else .replaceTail
  let (wi, li) := obsN "I" ⟨Cfg.pinned, false⟩ old s.wi name op
  let (wa, la) := obsN "A" ⟨Cfg.unswept, false⟩ old s.wa name op
  let (ws, ls) := obsN "S" TCfg.unclimbed old s.ws name op
  let (wc, lc) := obsN "C" TCfg.current old s.wc name op
  let (wd, ld) := obsN "D" TCfg.current .append s.wd name op
  ({ s with wi := wi, wa := wa, ws := ws, wc := wc, wd := wd }, [li, la, ls, lc, ld])

def parseStore : String → Option Store
  | "main" => some .main | "rec" => some .recovery | "a" => some .childA | "b" => some .childB | _ => none

/-- the flat ops (the live root node and its own file name, or addressed to a store with `at`) -/
def parseOp : List String → Option Op
  | ["save", c, v] =>
    match parseContent c, v.toNat? with
    | some c, some v => some (.save c v)
    | _, _ => none
  | ["crash", c, v, k] =>
    match parseContent c, v.toNat?, k.toNat? with
    | some c, some v, some k => some (.crash c v k)
    | _, _, _ => none
  | ["load"] => some .load
  | ["delete"] => some .delete
  | ["reopen"] => some .reopen
  | ["foreign", rel, v] =>
    match parseRel rel, v.toNat? with
    | some rel, some v => some (.loadForeign (Cls.ofRel rel) v)
    | _, _ => none
  | _ => none

/-- the dotted layout: plain ops go under the primary name, `at nb …` under the neighbouring one -/
def stepDotted (s : St) (ws : List String) : St × List String :=
  match ws with
  | "at" :: "nb" :: rest =>
    match parseOp rest with
    | some .reopen => (s, ["bad-op"])
    | some (.loadForeign _ _) => (s, ["bad-op"])
    | some op => bothN s .neighbour op
    | none => (s, ["bad-op"])
  | _ =>
    match parseOp ws with
    | some op => bothN s .primary op
    | none => (s, ["bad-op"])

def step (s : St) (ws : List String) : St × List String :=
  if ws = ["layout", "dotted"] then ({ s with dotted := true }, []) else
  if ws = ["layout", "pair"] then ({ s with dotted := true, pair := true }, []) else
  if s.dotted then stepDotted s ws else
  match ws with
  | "at" :: st :: rest =>
    match parseStore st, parseOp rest with
    | some st, some op =>
      -- auto-load and foreign loads exist for the graph's own file name only
      match st, op with
      | .main, _ => both s (.on .main op)
      | _, .reopen => (s, ["bad-op"])
      | _, .loadForeign _ _ => (s, ["bad-op"])
      | _, _ => both s (.on st op)
    | _, _ => (s, ["bad-op"])
  | [kind, c, v] =>
    match kind, parseContent c, v.toNat? with
    | "ckpt", some c, some v => both s (.ckpt c v)
    | "fail", some c, some v => both s (.fail c v)
    | _, _, _ =>
      match parseOp ws with
      | some op => both s (.on .main op)
      | none => (s, ["bad-op"])
  | [kind, c, v, k] =>
    match kind, parseContent c, v.toNat?, k.toNat? with
    | "ckptcrash", some c, some v, some k => both s (.ckptCrash c v k)
    | "failcrash", some c, some v, some k => both s (.failCrash c v k)
    | _, _, _, _ =>
      match parseOp ws with
      | some op => both s (.on .main op)
      | none => (s, ["bad-op"])
  | _ =>
    match parseOp ws with
    | some op => both s (.on .main op)
    | none => (s, ["bad-op"])

def main : IO Unit := Proto.run init step
