import PwVerif.Model.Storage
import PwVerif.Model.Proto
open PwVerif PwVerif.Storage PwVerif.Proto

/-- the variants are run side by side on the same op stream; every op prints one line per
variant (`I …` = inPlace/pinned, `A …` = atomicReplace with the delete that ignores leftovers (before `1e4658d`),
`S …` = atomicReplace with the delete that sweeps leftovers = the tree as it is) -/
structure St where
  wi : World
  wa : World
  ws : World

def init : St := ⟨.init Cls.graph, .init Cls.graph, .init Cls.graph⟩

def showFile : FileSt → String
  | .absent => "absent" | .empty => "empty" | .torn => "torn"
  | .good c v => s!"good:{c.id}:{v}"

def showSlot : Slot → String
  | .pckl => "pckl" | .cpckl => "cpckl" | .pcklTmp => "pt" | .cpcklTmp => "ct"

def showStep : Step → String
  | .mkdir => "mkdir" | .open s => "open:" ++ showSlot s | .write s => "write:" ++ showSlot s
  | .close s _ _ => "close:" ++ showSlot s | .unlink s => "unlink:" ++ showSlot s
  | .replace a b => "replace:" ++ showSlot a ++ ">" ++ showSlot b | .rmdirIfEmpty => "rmdir"

def showFS (fs : FS) : String :=
  s!"dir={if fs.dir then 1 else 0} pckl={showFile fs.pckl} cpckl={showFile fs.cpckl} pt={showFile fs.pcklTmp} ct={showFile fs.cpcklTmp}"

def showLoad : NodeLoadRes → String
  | .loaded v => s!"loaded:{v}" | .notFound => "notFound" | .corrupt => "corrupt"
  | .classMismatch => "classMismatch"

def showRes : Res → String
  | .saved => "saved" | .saveRaised => "saveRaised" | .crashed => "crashed" | .deleted => "deleted"
  | .fresh => "fresh" | .load r => showLoad r
  | .foreign n r => s!"{showLoad r} foreign={n.cls.id}:{n.ver}"

def parseRel : String → Option ClassRel
  | "same" => some .same | "samename" => some .sameName | "diffname" => some .diffName
  | "sub" => some .subclass | "super" => some .superclass | _ => none

def parseContent : String → Option Content
  | "ok" => some .ok | "pf" => some .pickleFails | "bf" => some .bothFail | _ => none

/-- the file-system calls an op performs, as the harness sees them on the real code
(the `finally` / delete `rmdir` shows only when the directory is actually removed) -/
def trace (cfg : Cfg) (w : World) : Op → List String
  | .save c v =>
    let st := saveSteps cfg.saveMode c w.node.cls v
    let fs1 := runSteps w.fs st
    st.map showStep ++ (if fs1.noFiles then ["rmdir"] else [])
  | .crash c v k => ((saveSteps cfg.saveMode c w.node.cls v).take k).map showStep
  | .delete =>
    let st := if hasSaved w.fs || (cfg.sweep && hasLeftover w.fs) then deleteSteps cfg.saveMode else []
    let fs1 := runSteps w.fs st
    st.map showStep ++ (if fs1.dir && fs1.noFiles then ["rmdir"] else [])
  | _ => []

def obs (tag : String) (cfg : Cfg) (w : World) (op : Op) : World × String :=
  let (w', r) := Storage.step cfg w op
  (w', s!"{tag} {showRes r} | {showFS w'.fs} | has={if hasSaved w'.fs then 1 else 0} | node={w'.node.ver} | steps={",".intercalate (trace cfg w op)}")

def both (s : St) (op : Op) : St × List String :=
  let (wi, li) := obs "I" Cfg.pinned s.wi op
  let (wa, la) := obs "A" Cfg.unswept s.wa op
  let (ws, ls) := obs "S" Cfg.current s.ws op
  (⟨wi, wa, ws⟩, [li, la, ls])

def step (s : St) (ws : List String) : St × List String :=
  match ws with
  | ["save", c, v] =>
    match parseContent c, v.toNat? with
    | some c, some v => both s (.save c v)
    | _, _ => (s, ["bad-op"])
  | ["crash", c, v, k] =>
    match parseContent c, v.toNat?, k.toNat? with
    | some c, some v, some k => both s (.crash c v k)
    | _, _, _ => (s, ["bad-op"])
  | ["load"] => both s .load
  | ["delete"] => both s .delete
  | ["reopen"] => both s .reopen
  | ["foreign", rel, v] =>
    match parseRel rel, v.toNat? with
    | some rel, some v => both s (.loadForeign (Cls.ofRel rel) v)
    | _, _ => (s, ["bad-op"])
  | _ => (s, ["bad-op"])

def main : IO Unit := Proto.run init step
