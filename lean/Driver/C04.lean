import PwVerif.Model.Hint
import PwVerif.Model.HintGate
import PwVerif.Model.Proto
open PwVerif PwVerif.Hint PwVerif.Proto

/-! Line-protocol driver for C04. Hints and values are written in prefix notation, one token per
word:

    hint  ::= c <cls> | N | un <n> hint* | uo <n> hint* | lit <n> lit* | an hint | li hint | se hint
            | di hint hint | tf <n> hint* | tv hint | ty hint | caE hint | caP <n> <cls>* hint
            | any | ba <alias> | sq hint | mp hint hint
    lit   ::= i<int> | bT | bF | s<str> | n
    value ::= i<int> | bT | bF | f<nat> | s<str> | n | l <n> value* | t <n> value* | st <n> value*
            | fs <n> value* | d <n> (value value)* | k <cls> | fn <mand> <npos> <0|1> | o <cls>

ops:  cfg <0|1> <0|1> <0|1> <0|1>   (unionOldExpanded literalTypeStrict tgOnly argsFix)
      cmp hint hint | adm hint value | conn (hint|-) (hint|-) <0|1> | recv (hint|-) (hint|-) <0|1>
      gate <via> (hint|-) (hint|-) <senderStrict> <receiverStrict>      via ::= oc | ic | ri | ro
 histories (state: numbered channels, links, values; reset by `case`):
      chan <id> (hint|-) <strict>      (re)define a channel, no output
      strict <id> <0|1>                switch its flag, no output
      setval <id> value                `channel.value = v`        -> setval ok | rejected
      link <via> <s> <r>               make the link              -> link ok | refused | REC | receiver-rejects
      relink <via> <s> <r>             replace_child re-forging a value link (validated, value pushed if taken) -> link ok | refused | REC
      push <via> <s> <r> value         send a value over the link -> push ok | sender-rejects | receiver-rejects | no-link
      pushd <via> <s> <r> value        like push, the value travels on through the value receivers of both ends
      links                            -> links <via>:<s>><r> ... (newest first)
-/

def parseCls : String → Option Cls
  | "object" => some .object | "int" => some .int | "bool" => some .bool | "float" => some .float
  | "str" => some .str | "list" => some .list | "set" => some .set | "frozenset" => some .frozenset
  | "dict" => some .dict | "tuple" => some .tuple | "type" => some .type | "NoneType" => some .noneT
  | "Callable" => some .callable | "function" => some .func
  | "A" => some .uA | "B" => some .uB | "C" => some .uC | "D" => some .uD
  | "Sequence" => some .sequence | "Mapping" => some .mapping
  | _ => none

def parseAlias : String → Option Alias
  | "list" => some .list | "set" => some .set | "dict" => some .dict | "tuple" => some .tuple
  | "type" => some .type | "Callable" => some .callable | "Sequence" => some .seq | "Mapping" => some .mapping
  | _ => none

def parseLit (w : String) : Option Lit :=
  if w == "n" then some .none
  else if w == "bT" then some (.b true)
  else if w == "bF" then some (.b false)
  else if w.startsWith "i" then (w.drop 1).toString.toInt?.map .i
  else if w.startsWith "s" then some (.s (w.drop 1).toString)
  else none

def parseBit : String → Option Bool
  | "0" => some false | "1" => some true | _ => none

abbrev P (α : Type) := List String → Option (α × List String)

partial def parseMany {α} (p : P α) : Nat → P (List α)
  | 0, ws => some ([], ws)
  | n + 1, ws => do
    let (x, ws) ← p ws
    let (xs, ws) ← parseMany p n ws
    pure (x :: xs, ws)

def parseClsTok : P Cls
  | w :: ws => (parseCls w).map (·, ws)
  | [] => none

def parseLitTok : P Lit
  | w :: ws => (parseLit w).map (·, ws)
  | [] => none

partial def parseHint : P Hint
  | "c" :: w :: ws => (parseCls w).map fun c => (.cls c, ws)
  | "N" :: ws => some (.noneVal, ws)
  | "any" :: ws => some (.any, ws)
  | "ba" :: w :: ws => (parseAlias w).map fun g => (.bare g, ws)
  | "sq" :: ws => do let (h, ws) ← parseHint ws; pure (.seqOf h, ws)
  | "mp" :: ws => do
    let (k, ws) ← parseHint ws
    let (v, ws) ← parseHint ws
    pure (.mapOf k v, ws)
  | "un" :: n :: ws => do
    let (hs, ws) ← parseMany parseHint (← n.toNat?) ws
    pure (.unionNew hs, ws)
  | "uo" :: n :: ws => do
    let (hs, ws) ← parseMany parseHint (← n.toNat?) ws
    pure (.unionOld hs, ws)
  | "lit" :: n :: ws => do
    let (ls, ws) ← parseMany parseLitTok (← n.toNat?) ws
    pure (.literal ls, ws)
  | "an" :: ws => do let (h, ws) ← parseHint ws; pure (.annotated h, ws)
  | "li" :: ws => do let (h, ws) ← parseHint ws; pure (.listOf h, ws)
  | "se" :: ws => do let (h, ws) ← parseHint ws; pure (.setOf h, ws)
  | "di" :: ws => do
    let (k, ws) ← parseHint ws
    let (v, ws) ← parseHint ws
    pure (.dictOf k v, ws)
  | "tf" :: n :: ws => do
    let (hs, ws) ← parseMany parseHint (← n.toNat?) ws
    pure (.tupleFix hs, ws)
  | "tv" :: ws => do let (h, ws) ← parseHint ws; pure (.tupleVar h, ws)
  | "ty" :: ws => do let (h, ws) ← parseHint ws; pure (.typeOf h, ws)
  | "caE" :: ws => do let (h, ws) ← parseHint ws; pure (.callableOf none h, ws)
  | "caP" :: n :: ws => do
    let (cs, ws) ← parseMany parseClsTok (← n.toNat?) ws
    let (h, ws) ← parseHint ws
    pure (.callableOf (some cs) h, ws)
  | _ => none

partial def parseVal : P V
  | "l" :: n :: ws => do let (xs, ws) ← parseMany parseVal (← n.toNat?) ws; pure (.l xs, ws)
  | "t" :: n :: ws => do let (xs, ws) ← parseMany parseVal (← n.toNat?) ws; pure (.t xs, ws)
  | "st" :: n :: ws => do let (xs, ws) ← parseMany parseVal (← n.toNat?) ws; pure (.st xs, ws)
  | "fs" :: n :: ws => do let (xs, ws) ← parseMany parseVal (← n.toNat?) ws; pure (.fs xs, ws)
  | "d" :: n :: ws => do
    let (xs, ws) ← parseMany parseVal (2 * (← n.toNat?)) ws
    let rec split : List V → List V × List V
      | a :: b :: r => let (ks, vs) := split r; (a :: ks, b :: vs)
      | _ => ([], [])
    let (ks, vs) := split xs
    pure (.d ks vs, ws)
  | "k" :: w :: ws => (parseCls w).map fun c => (.k c, ws)
  | "o" :: w :: ws => (parseCls w).map fun c => (.inst c, ws)
  | "fn" :: m :: p :: va :: ws => do
    pure (.fn (← m.toNat?) (← p.toNat?) (← parseBit va), ws)
  | w :: ws =>
    if w == "n" then some (.none, ws)
    else if w == "bT" then some (.b true, ws)
    else if w == "bF" then some (.b false, ws)
    else if w.startsWith "i" then (w.drop 1).toString.toInt?.map fun n => (.i n, ws)
    else if w.startsWith "f" then (w.drop 1).toString.toNat?.map fun n => (.f n, ws)
    else if w.startsWith "s" then some (.s (w.drop 1).toString, ws)
    else none
  | [] => none

def parseOptHint : P (Option Hint)
  | "-" :: ws => some (none, ws)
  | ws => (parseHint ws).map fun (h, ws) => (some h, ws)

def showCmp : Option Bool → String
  | none => "REC" | some true => "T" | some false => "F"

def showAcc : Option Bool → String
  | none => "REC" | some true => "ok" | some false => "refused"

def parseVia : String → Option Via
  | "oc" => some .outConnects | "ic" => some .inpConnects | "ri" => some .recvInp | "ro" => some .recvOut
  | _ => none

def showVia : Via → String
  | .outConnects => "oc" | .inpConnects => "ic" | .recvInp => "ri" | .recvOut => "ro"

def showOutcome : Outcome → String
  | .ok => "ok" | .refused => "refused" | .diverges => "REC" | .senderRejects => "sender-rejects"
  | .receiverRejects => "receiver-rejects" | .noLink => "no-link"

def stepCfg (cfg : Cfg) (ws : List String) : Cfg × List String :=
  match ws with
  | ["cfg", a, b, c, d] =>
    match parseBit a, parseBit b, parseBit c, parseBit d with
    | some a, some b, some c, some d => (⟨a, b, c, d⟩, [])
    | _, _, _, _ => (cfg, ["bad-op"])
  | "cmp" :: ws =>
    match (do let (h, ws) ← parseHint ws; let (o, ws) ← parseHint ws; pure (h, o, ws)) with
    | some (h, o, []) => (cfg, ["cmp " ++ showCmp (compare cfg h o)])
    | _ => (cfg, ["bad-op"])
  | "adm" :: ws =>
    match (do let (h, ws) ← parseHint ws; let (v, ws) ← parseVal ws; pure (h, v, ws)) with
    | some (h, v, []) => (cfg, ["adm " ++ (if admits cfg h v then "T" else "F")])
    | _ => (cfg, ["bad-op"])
  | "conn" :: ws =>
    match (do let (h, ws) ← parseOptHint ws; let (o, ws) ← parseOptHint ws; pure (h, o, ws)) with
    | some (h, o, [s]) =>
      match parseBit s with
      | some s => (cfg, ["conn " ++ showAcc (validConnection cfg ⟨h, true⟩ ⟨o, s⟩)])
      | none => (cfg, ["bad-op"])
    | _ => (cfg, ["bad-op"])
  | "recv" :: ws =>
    match (do let (h, ws) ← parseOptHint ws; let (o, ws) ← parseOptHint ws; pure (h, o, ws)) with
    | some (h, o, [s]) =>
      match parseBit s with
      | some s => (cfg, ["recv " ++ showAcc (validReceiver cfg ⟨h, true⟩ ⟨o, s⟩)])
      | none => (cfg, ["bad-op"])
    | _ => (cfg, ["bad-op"])
  | "gate" :: v :: ws =>
    match parseVia v, (do let (h, ws) ← parseOptHint ws; let (o, ws) ← parseOptHint ws; pure (h, o, ws)) with
    | some via, some (h, o, [a, b]) =>
      match parseBit a, parseBit b with
      | some a, some b => (cfg, ["gate " ++ showAcc (gate cfg via ⟨h, a⟩ ⟨o, b⟩)])
      | _, _ => (cfg, ["bad-op"])
    | _, _ => (cfg, ["bad-op"])
  | _ => (cfg, ["bad-op"])

structure St where
  cfg : Cfg
  net : Net

def init : St := ⟨Cfg.pinned, Net.init fun _ => ⟨none, true⟩⟩

def step (st : St) (ws : List String) : St × List String :=
  match ws with
  | "chan" :: i :: ws =>
    match i.toNat?, parseOptHint ws with
    | some i, some (h, [b]) =>
      match parseBit b with
      | some b => ({ st with net := { st.net with chan := updN st.net.chan i ⟨h, b⟩ } }, [])
      | none => (st, ["bad-op"])
    | _, _ => (st, ["bad-op"])
  | ["strict", i, b] =>
    match i.toNat?, parseBit b with
    | some i, some b => ({ st with net := st.net.setStrict i b }, [])
    | _, _ => (st, ["bad-op"])
  | "setval" :: i :: ws =>
    match i.toNat?, parseVal ws with
    | some i, some (v, []) =>
      if typeCheckOk st.cfg (st.net.chan i) v then
        ({ st with net := st.net.step st.cfg (.setVal i v) }, ["setval ok"])
      else (st, ["setval rejected"])
    | _, _ => (st, ["bad-op"])
  | ["link", v, s, r] =>
    match parseVia v, s.toNat?, r.toNat? with
    | some via, some s, some r =>
      let (n, o) := st.net.link st.cfg via s r
      ({ st with net := n }, ["link " ++ showOutcome o])
    | _, _, _ => (st, ["bad-op"])
  | ["relink", v, s, r] =>
    match parseVia v, s.toNat?, r.toNat? with
    | some via, some s, some r =>
      let (n, o) := st.net.relink st.cfg via s r
      ({ st with net := n }, ["link " ++ showOutcome o])
    | _, _, _ => (st, ["bad-op"])
  | "push" :: v :: s :: r :: ws =>
    match parseVia v, s.toNat?, r.toNat?, parseVal ws with
    | some via, some s, some r, some (x, []) =>
      let (n, o) := st.net.push st.cfg via s r x
      ({ st with net := n }, ["push " ++ showOutcome o])
    | _, _, _, _ => (st, ["bad-op"])
  | "pushd" :: v :: s :: r :: ws =>
    match parseVia v, s.toNat?, r.toNat?, parseVal ws with
    | some via, some s, some r, some (x, []) =>
      let (n, o) := st.net.pushDeep st.cfg via s r x
      ({ st with net := n }, ["push " ++ showOutcome o])
    | _, _, _, _ => (st, ["bad-op"])
  | ["links"] =>
    (st, [" ".intercalate ("links" :: st.net.links.map fun l => s!"{showVia l.via}:{l.s}>{l.r}")])
  | _ =>
    let (c, out) := stepCfg st.cfg ws
    ({ st with cfg := c }, out)

def main : IO Unit := Proto.run init step
