import PwVerif.Model.ExecFin
import PwVerif.Model.ExecNest
import PwVerif.Model.ExecFine
import PwVerif.Model.FlowFail
import PwVerif.Model.FlowExec
import PwVerif.Model.Proto
open PwVerif PwVerif.Exec PwVerif.Proto PwVerif.ExecNest PwVerif.ExecFine

/-!
Driver of C06. Flat ops (`n … run`) as in Driver/C01 (same canonical scheduler, four Cfg variants);
nested ops (`comp <path>` … `nrun`): a tree of composites, every one described by the flat ops, run by the
canonical NESTED scheduler — the call stack of the real single-threaded run: a local macro child runs its
whole loop inside the parent's step, an executor job (function node or macro) runs when the recorded
schedule says so, at an idle point of whatever loop is innermost or after an emission event.
-/

/-- scheduled completion: after `at` emission events, or at an idle point -/
inductive Tok | at (h k : Nat) | sleep (k : Nat)

def setAt {α} (l : List α) (i : Nat) (v : α) (dflt : α) : List α :=
  let l' := if l.length ≤ i then l ++ List.replicate (i + 1 - l.length) dflt else l
  l'.set i v

partial def showVal : Val → String
  | .nd => "ND"
  | .d => "d"
  | .app f args => s!"f{f}(" ++ ",".intercalate (args.map showVal) ++ ")"

def showSt : Exec.St → String
  | .idle => "idle" | .out => "out" | .done => "done" | .failed => "failed"

/-- the canonical scheduler with the recorded completions injected; `ev` counts emission events -/
def drive (cfg : Cfg) (d : Dag) : Nat → S → List Tok → Nat → S × String
  | 0, s, _, _ => (s, "fuel")
  | fuel + 1, s, sched, ev =>
    match s.phase with
    | .exited => (s, "exited")
    | .aborted => (s, "aborted")
    | .run rest =>
      match sched with
      | .at h k :: more =>
        if h = ev then
          match step cfg d s (.complete k) with
          | some s' => drive cfg d fuel s' more (ev + 1)
          | none => (s, s!"stuck-complete-{k}")
        else driveCanon cfg d fuel s sched ev rest
      | _ => driveCanon cfg d fuel s sched ev rest
where
  driveCanon (cfg : Cfg) (d : Dag) (fuel : Nat) (s : S) (sched : List Tok) (ev : Nat) (rest : List Nat) :
      S × String :=
    match rest with
    | _ :: _ =>
      match step cfg d s .start with
      | some s' => drive cfg d fuel s' sched (if s'.doneLog.length > s.doneLog.length then ev + 1 else ev)
      | none => (s, "stuck-start")
    | [] =>
      match s.queue with
      | _ :: _ =>
        match step cfg d s .deliver with
        | some s' => drive cfg d fuel s' sched (if s'.doneLog.length > s.doneLog.length then ev + 1 else ev)
        | none => (s, "stuck-deliver")
      | [] =>
        match s.running with
        | [] =>
          match step cfg d s .exit with
          | some s' => (s', "exited")
          | none => (s, "stuck-exit")
        | _ :: _ =>
          match sched with
          | .sleep k :: more =>
            match step cfg d s (.complete k) with
            | some s' => drive cfg d fuel s' more (ev + 1)
            | none => (s, s!"stuck-complete-{k}")
          | _ => (s, "stuck-idle")

def report (tag : String) (f : FinDag) (s : S) (fin : String) : List String :=
  let ids := List.range f.n
  let outcome := if fin = "aborted" then "aborted" else if fin = "exited" then (if s.errs.isEmpty then "ok" else "failedchild") else fin
  [ s!"{tag} end {fin}",
    s!"{tag} outcome {outcome}",
    s!"{tag} exec {showNats s.execLog}",
    s!"{tag} done {showNats s.doneLog}",
    s!"{tag} st " ++ " ".intercalate (ids.map fun i => s!"{i}:{showSt (s.st i)}"),
    s!"{tag} calls " ++ " ".intercalate (ids.map fun i => s!"{i}:{s.calls i}"),
    s!"{tag} out " ++ " ".intercalate (ids.map fun i => s!"{i}:{showVal (s.out i)}"),
    s!"{tag} errs {showNats s.errs}",
    s!"{tag} running {showNats s.running}" ]

def parseTok (w : String) : Option Tok :=
  match w.splitOn ":" with
  | ["s", k] => k.toNat?.map Tok.sleep
  | [h, k] => match h.toNat?, k.toNat? with
    | some h, some k => some (.at h k)
    | _, _ => none
  | _ => none


/-! ### fine part (as Driver/C01) -/

/-- fine schedule token: at main-thread schedule point `p` (or late = after the run returned) the
first / second half of the callback of `k` runs -/
structure FTok where
  p : Option Nat
  first : Bool
  k : Nat

/-- apply all tokens scheduled for point `p` -/
def applyToks (cfg : Cfg) (fc : FCfg) (d : Dag) (f : F) (p : Option Nat) :
    List FTok → Option (F × List FTok × Nat)
  | [] => some (f, [], 0)
  | t :: ts =>
    if t.p = p then
      match stepF cfg fc d f (if t.first then .cbFirst t.k else .cbSecond t.k) with
      | some f' => (applyToks cfg fc d f' p ts).map fun (g, r, n) => (g, r, n + 1)
      | none => none
    else some (f, t :: ts, 0)

/-- the canonical main thread (start all starters, drain the queue, idle, exit) with the recorded
callback halves injected at the main thread's schedule points: after every emission made on the main
thread (a local child completed) and at every idle `sleep` -/
def driveF (cfg : Cfg) (fc : FCfg) (d : Dag) : Nat → F → List FTok → Nat → F × String
  | 0, f, _, _ => (f, "fuel")
  | fuel + 1, f, toks, p =>
    let point (f' : F) (grew : Bool) : F × String :=
      if grew then
        match applyToks cfg fc d f' (some p) toks with
        | some (g, rest, _) => driveF cfg fc d fuel g rest (p + 1)
        | none => (f', s!"stuck-token-at-{p}")
      else driveF cfg fc d fuel f' toks p
    match f.core.phase with
    | .exited =>
      match applyToks cfg fc d f none toks with
      | some (g, [], _) => (g, "exited")
      | some (g, _, _) => (g, "tokens-left")
      | none => (f, "stuck-late-token")
    | .aborted => (f, "aborted")
    | .run (_ :: _) =>
      match stepF cfg fc d f .start with
      | some f' => point f' (f'.core.doneLog.length > f.core.doneLog.length)
      | none => (f, "stuck-start")
    | .run [] =>
      match f.core.queue with
      | _ :: _ =>
        match stepF cfg fc d f .deliver with
        | some f' => point f' (f'.core.doneLog.length > f.core.doneLog.length)
        | none => (f, "stuck-deliver")
      | [] =>
        match visRunning fc f with
        | [] =>
          match stepF cfg fc d f .exit with
          | some f' => driveF cfg fc d fuel f' toks p
          | none => (f, "stuck-exit")
        | _ :: _ =>
          match applyToks cfg fc d f (some p) toks with
          | some (g, rest, n) => if n = 0 then (f, s!"stuck-idle-at-{p}") else driveF cfg fc d fuel g rest (p + 1)
          | none => (f, s!"stuck-token-at-{p}")

def sortNats (l : List Nat) : List Nat := (l.toArray.qsort (· < ·)).toList

def reportF (tag : String) (fd : FinDag) (fc : FCfg) (f : F) (fin : String) : List String :=
  let ids := List.range fd.n
  let s := f.core
  [ s!"{tag} end {fin}",
    s!"{tag} exec {showNats s.execLog}",
    s!"{tag} doneset {showNats (sortNats s.doneLog)}",
    s!"{tag} st " ++ " ".intercalate (ids.map fun i => s!"{i}:{showSt (s.st i)}"),
    s!"{tag} calls " ++ " ".intercalate (ids.map fun i => s!"{i}:{s.calls i}"),
    s!"{tag} out " ++ " ".intercalate (ids.map fun i => s!"{i}:{showVal (s.out i)}"),
    s!"{tag} running {showNats (sortNats (visRunning fc f))}",
    s!"{tag} late {showNats f.late}" ]

def parseFTok (w : String) : Option FTok :=
  match w.splitOn ":" with
  | [p, h, k] =>
    let first? := if h = "F" then some true else if h = "T" then some false else none
    match first?, k.toNat? with
    | some b, some k =>
      if p = "L" then some { p := none, first := b, k := k }
      else p.toNat?.map fun p => { p := some p, first := b, k := k }
    | _, _ => none
  | _ => none


/-- fine report with the error side: what the composite has collected, whether it raises -/
def reportFE (tag : String) (fd : FinDag) (fc : FCfg) (f : F) (fin : String) : List String :=
  reportF tag fd fc f fin ++
    [ s!"{tag} outcome {if f.core.errs.isEmpty then "ok" else "failedchild"}",
      s!"{tag} errs {showNats (sortNats f.core.errs)}",
      s!"{tag} mid {showNats (sortNats f.mid)}" ]


/-! ### hand-wired flows (Model/FlowFail.lean on Signal.compositeRun) -/

structure FlowD where
  n : Nat := 0
  ifs : List (Nat × Bool) := []          -- `If` children and their constant condition
  conns : List (Nat × List Nat) := []    -- emitting channel ↦ receivers (their `run` input), in list order
  starters : List Nat := []
  fails : List Nat := []
  pre : Bool := false
  cache : Bool := false                  -- `use_cache` on every child; the failing children get an input edited
  execs : List Nat := []                 -- children handed to the executor
  sched : List Tok := []                 -- completions: after `h` emission events / at an idle point

def FlowD.graph (f : FlowD) : Signal.Graph :=
  { conns := fun s => match f.conns.find? (fun p => p.1 == s) with
      | some p => p.2.map fun r => ({ node := r, acc := false } : Signal.Recv)
      | none => [],
    accConns := fun _ => [], lab := fun s => s, starters := f.starters, sigs := f.conns.map (·.1) }

def FlowD.nodes (f : FlowD) (failing : Bool) : Nat → Signal.Node := fun i =>
  let bad := failing && f.fails.contains i
  let failAt := if bad then (List.range 400).map (· + 1) else []
  -- with caching on, a child that is to fail has an input edited (else it would answer from its cache)
  match f.ifs.find? (fun p => p.1 == i) with
  | some p => { kind := .ifk, slots := [{ own := if bad && f.cache then .nat 99 else .bool p.2, conns := [] }],
                useCache := f.cache, failAt := failAt }
  | none => { kind := .term i, slots := [{ own := if bad && f.cache then .nat 7 else .d, conns := [] }],
              useCache := f.cache, failAt := failAt }

def runFlow (f : FlowD) : List String :=
  let g := f.graph
  let exc : Nat → Nat → (Nat × Bool) := fun i _ => (i, true)
  let refusal : Nat → (Nat × Bool) := fun i => (i, false)
  let st0 : Signal.Store :=
    if f.pre then
      ((Signal.compositeRun (FlowFail.flowSem true (f.nodes false) exc refusal) g 4000
        (Signal.S.init (FlowFail.FStore.init Signal.Store.init) (fun _ => []))).store).st
    else Signal.Store.init
  let s := Signal.compositeRun (FlowFail.flowSem true (f.nodes true) exc refusal) g 4000
    (Signal.S.init (FlowFail.FStore.init st0) (fun _ => []))
  let fs := s.store
  let ids := List.range f.n
  let showE (e : Nat × Bool) : String := if e.2 then s!"orig:{e.1}" else s!"refusal:{e.1}"
  let seen := match FlowFail.seen fs.book with
    | .nothing => "-"
    | .failedChild (some e) => "fc " ++ showE e
    | .failedChild none => "fc none"
  [ s!"W exec {showNats (fs.st.execLog.drop st0.execLog.length)}",
    s!"W done {showNats (fs.st.doneLog.drop st0.doneLog.length)}",
    s!"W failed {showNats (ids.filter fun i => fs.st.failed i)}",
    "W collect " ++ " ".intercalate ((fs.log.filter (·.raised)).map fun en =>
      s!"{en.child}:{if en.started then "run" else "refused"}"),
    "W truth " ++ " ".intercalate ((f.ifs.map (·.1)).map fun i => s!"{i}:{showVal' (fs.st.out i)}"),
    s!"W seen {seen}",
    s!"W queue {s.queue.length}",
    "W calls " ++ " ".intercalate (ids.map fun i =>
      s!"{i}:{((fs.st.callLog.drop st0.callLog.length).filter fun c => c.1 == i).length}") ]
where
  showVal' : Signal.Val → String
    | .bool true => "T" | .bool false => "F" | .nd => "ND" | _ => "?"

/-- canonical scheduler of a flow with executor children: starting loop, drain loop, recorded completions injected after
emission events and at idle points, the status sweep at the end -/
partial def driveX (nodes : Nat → Signal.Node) (onExec : Nat → Bool) (g : Signal.Graph) :
    Nat → FlowExec.X (Nat × Bool) → List Tok → Nat → FlowExec.X (Nat × Bool) × String
  | 0, x, _, _ => (x, "fuel")
  | fuel + 1, x, toks, ev =>
    let exc : Nat → Nat → (Nat × Bool) := fun i _ => (i, true)
    let refusal : Nat → (Nat × Bool) := fun i => (i, false)
    let stp := FlowExec.xstep nodes onExec exc refusal g
    let grew (x' : FlowExec.X (Nat × Bool)) : Nat :=
      if x'.s.store.fs.st.doneLog.length > x.s.store.fs.st.doneLog.length then ev + 1 else ev
    if x.phase = 2 then (x, "ended") else
    if x.phase = 0 then
      match stp x .begin with
      | some x' => driveX nodes onExec g fuel x' toks ev
      | none => (x, "stuck-begin")
    else
    match toks with
    | .at h k :: more =>
      if h = ev then
        match stp x (.complete k) with
        | some x' => driveX nodes onExec g fuel x' more (ev + 1)
        | none => (x, s!"stuck-complete-{k}")
      else canon stp grew fuel x toks
    | _ => canon stp grew fuel x toks
where
  canon (stp : FlowExec.X (Nat × Bool) → FlowExec.XAct → Option (FlowExec.X (Nat × Bool)))
      (grew : FlowExec.X (Nat × Bool) → Nat) (fuel : Nat) (x : FlowExec.X (Nat × Bool)) (toks : List Tok) :
      FlowExec.X (Nat × Bool) × String :=
    if !x.rest.isEmpty then
      match stp x .start with
      | some x' => driveX nodes onExec g fuel x' toks (grew x')
      | none => (x, "stuck-start")
    else if !x.s.queue.isEmpty then
      match stp x .deliver with
      | some x' => driveX nodes onExec g fuel x' toks (grew x')
      | none => (x, "stuck-deliver")
    else if !x.s.store.inflight.isEmpty then
      match toks with
      | .sleep k :: more =>
        match stp x (.complete k) with
        | some x' => driveX nodes onExec g fuel x' more (grew x')
        | none => (x, s!"stuck-complete-{k}")
      | _ => (x, "stuck-idle")
    else
      match stp x .finish with
      | some x' => (x', "ended")
      | none => (x, "stuck-finish")

def runFlowX (f : FlowD) : List String :=
  let g := f.graph
  let exc : Nat → Nat → (Nat × Bool) := fun i _ => (i, true)
  let refusal : Nat → (Nat × Bool) := fun i => (i, false)
  let st0 : Signal.Store :=
    if f.pre then
      ((Signal.compositeRun (FlowFail.flowSem true (f.nodes false) exc refusal) g 4000
        (Signal.S.init (FlowFail.FStore.init Signal.Store.init) (fun _ => []))).store).st
    else Signal.Store.init
  let (x, fin) := driveX (f.nodes true) (fun i => f.execs.contains i) g 4000 (FlowExec.X.init st0) f.sched 0
  let fs := x.s.store.fs
  let ids := List.range f.n
  let showE (e : Nat × Bool) : String := if e.2 then s!"orig:{e.1}" else s!"refusal:{e.1}"
  let seen := match FlowFail.seen fs.book with
    | .nothing => "-"
    | .failedChild (some e) => "fc " ++ showE e
    | .failedChild none => "fc none"
  let tv : Signal.Val → String := fun v => match v with
    | .bool true => "T" | .bool false => "F" | .nd => "ND" | _ => "?"
  [ s!"W exec {showNats (fs.st.execLog.drop st0.execLog.length)}",
    s!"W done {showNats (fs.st.doneLog.drop st0.doneLog.length)}",
    s!"W failed {showNats (ids.filter fun i => fs.st.failed i)}",
    "W collect " ++ " ".intercalate ((fs.log.filter (·.raised)).map fun en =>
      s!"{en.child}:{if en.started then "run" else "refused"}"),
    "W truth " ++ " ".intercalate ((f.ifs.map (·.1)).map fun i => s!"{i}:{tv (fs.st.out i)}"),
    s!"W seen {seen}",
    s!"W queue {x.s.queue.length}",
    s!"W running {showNats x.s.store.inflight}",
    s!"W status {fin}" ]

/-- a push from parentless node `i` (Model/FlowFail.lean `push`): nested calls through the hand-made signals -/
def runPush (f : FlowD) (i : Nat) : List String :=
  let g := f.graph
  let exc : Nat → Nat → (Nat × Bool) := fun i _ => (i, true)
  let refusal : Nat → (Nat × Bool) := fun i => (i, false)
  let st0 : Signal.Store :=
    if f.pre then ((FlowFail.push false (f.nodes false) g exc refusal 400 { st := Signal.Store.init, log := [] } i).1).st
    else Signal.Store.init
  let res := FlowFail.push false (f.nodes true) g exc refusal 400 { st := st0, log := [] } i
  let ids := List.range f.n
  let seen := match res.2 with
    | none => "-"
    | some e => if e.2 then s!"raw orig:{e.1}" else s!"raw refusal:{e.1}"
  [ s!"P exec {showNats ((res.1.log.filter (·.started)).map (·.child))}",
    s!"P failed {showNats (ids.filter fun i => res.1.st.failed i)}",
    s!"P seen {seen}" ]


/-! ### kinds of raised objects × paths (Model/ExecNest.lean `propagate`) -/

def showLStat : LStat → String
  | .failed => "failed" | .leftRunning => "leftRunning" | .falselyDone => "clean" | .fine => "clean"

def showKind : ExecNest.Kind → String
  | .exception => "exception" | .keyboardInterrupt => "ki" | .otherBase => "base"

def parseKind : String → Option ExecNest.Kind
  | "exception" => some .exception | "ki" => some .keyboardInterrupt | "base" => some .otherBase | _ => none

def ktabReport (tag : String) (c : KCfg) (k : ExecNest.Kind) (execs : List Bool) : List String :=
  let o := propagate c k execs
  let caller := match o.hand.caller with
    | .raw k => s!"raw:{showKind k}"
    | .chain k n => s!"chain:{showKind k}:{n}"
    | .nothing => "nothing"
  -- the sibling downstream of the path child of every composite runs iff that child "completed"
  let down := (o.stats.dropLast).map fun st => match st with
    | .falselyDone => "1" | .fine => "1" | _ => "0"
  [ s!"K {tag} stat " ++ " ".intercalate (o.stats.map showLStat),
    s!"K {tag} aborted " ++ " ".intercalate (o.aborted.map fun b => if b then "1" else "0"),
    s!"K {tag} down " ++ " ".intercalate down,
    s!"K {tag} caller {caller}",
    s!"K {tag} recovery {if o.stats.getLast? = some LStat.failed then "yes" else "no"}" ]


/-! ### nested part -/

abbrev Path := List Nat

def showPath (p : Path) : String := if p.isEmpty then "r" else ".".intercalate (p.map toString)

def parsePath (w : String) : Option Path :=
  if w = "r" then some [] else (w.splitOn ".").mapM String.toNat?

/-- nested schedule token: the job of the child at `kp` (path of the child itself) completes after `h`
emission events, or at an idle point -/
inductive NTok | at (h : Nat) (kp : Path) | sleep (kp : Path)

def parseNTok (w : String) : Option NTok :=
  match w.splitOn ":" with
  | ["s", k] => (parsePath k).map NTok.sleep
  | [h, k] => match h.toNat?, parsePath k with
    | some h, some k => some (.at h k)
    | _, _ => none
  | _ => none

/-- description of one composite -/
structure CDesc where
  path : Path
  f : FinDag := { n := 0, slots := [], down := [], starters := [], onExec := [], fails := [], rank := [] }
  kids : List Nat := []
  prev : Bool := false
  hits : List Nat := []     -- children that answer from their cache in the run to come (observed)

/-- value a child's output holds from an earlier run -/
def prevVal (i : Nat) : Val := .app (1000 + i) []

def findDesc (ds : List CDesc) (p : Path) : Option CDesc := ds.find? (fun c => c.path == p)

/-- build the tree; the exception "class" of a function node is its own address (path of the composite ++ [i]) -/
def build (ds : List CDesc) : Nat → Path → Tree Path
  | 0, _ => .leaf
  | fuel + 1, p =>
    match findDesc ds p with
    | none => .leaf
    | some c =>
      let d := c.f.toDag
      let d := if c.prev then { d with out0 := prevVal } else d
      mkComp d (fun i => p ++ [i]) (c.kids.map fun k => (k, build ds fuel (p ++ [k])))

def stateAt (t : Tree Path) (p : Path) : Option (Dag × S × (Nat → Tree Path)) :=
  match t.sub p with
  | .leaf => none
  | .comp d _ s kids => some (d, s, kids)

structure G where
  t : Tree Path
  toks : List NTok
  ev : Nat := 0
  err : Option String := none
  fuel : Nat

def G.fail (g : G) (m : String) : G := if g.err.isSome then g else { g with err := some m }

def isComp : Tree Path → Bool
  | .leaf => false
  | .comp _ _ _ _ => true

def splitLast (kp : Path) : Option (Path × Nat) :=
  match kp.reverse with
  | [] => none
  | k :: rp => some (rp.reverse, k)

mutual
/-- run the loop of the composite at `p` to its end, on the caller's stack -/
partial def runComp (p : Path) (g : G) : G :=
  if g.err.isSome then g else
  if g.fuel = 0 then g.fail "fuel" else
  let g := { g with fuel := g.fuel - 1 }
  match stateAt g.t p with
  | none => g.fail s!"no-composite-{showPath p}"
  | some (_, s, _) =>
    match s.phase with
    | .exited => g
    | .aborted => g
    | .run (i :: _) => runComp p (ownStep p .start i g)
    | .run [] =>
      match s.queue with
      | (_, i) :: _ => runComp p (ownStep p .deliver i g)
      | [] =>
        match s.running with
        | [] =>
          match nstep Cfg.repaired g.t p .exit with
          | some t' => { g with t := t' }
          | none => g.fail s!"stuck-exit-{showPath p}"
        | _ :: _ =>
          match g.toks with
          | .sleep kp :: more => runComp p (completeJob kp { g with toks := more })
          | _ => g.fail s!"stuck-idle-{showPath p}"

/-- `start` / `deliver` of the composite at `p`; the child concerned is `i`. If `i` left `idle`: a function
node run locally has finished (event), a macro run locally runs its loop now and then finishes (event),
anything handed to an executor is just out. -/
partial def ownStep (p : Path) (a : Act) (i : Nat) (g : G) : G :=
  match stateAt g.t p with
  | none => g.fail "no-composite"
  | some (d, s, kids) =>
    match nstep Cfg.repaired g.t p a with
    | none => g.fail s!"stuck-{showPath p}"
    | some t' =>
      let g := { g with t := t' }
      match stateAt t' p with
      | none => g.fail "no-composite"
      | some (_, s', _) =>
        if s.st i = .idle ∧ s'.st i ≠ .idle then
          if s'.st i = .out then
            if isComp (kids i) ∧ d.onExec i = false then
              finishChild p i (runComp (p ++ [i]) g)
            else g
          else point { g with ev := g.ev + 1 }
        else g

/-- the child `i` of `p` (out, its own loop over if it is a macro) finishes: parent's `complete i`, an event -/
partial def finishChild (p : Path) (i : Nat) (g : G) : G :=
  if g.err.isSome then g else
  match nstep Cfg.repaired g.t p (.complete i) with
  | some t' => point { g with t := t', ev := g.ev + 1 }
  | none => g.fail s!"stuck-complete-{showPath (p ++ [i])}"

/-- an executor job runs now: a macro's job is its whole loop; then the done-callback -/
partial def completeJob (kp : Path) (g : G) : G :=
  if g.err.isSome then g else
  match splitLast kp with
  | none => g.fail "bad-token"
  | some (p, k) =>
    match stateAt g.t p with
    | none => g.fail s!"no-composite-{showPath p}"
    | some (_, _, kids) =>
      if isComp (kids k) then finishChild p k (runComp kp g) else finishChild p k g

/-- schedule point after an emission event -/
partial def point (g : G) : G :=
  if g.err.isSome then g else
  match g.toks with
  | .at h kp :: more => if h = g.ev then completeJob kp { g with toks := more } else g
  | _ => g
end

def showErr : Option (Err Path) → String
  | none => "-"
  | some e => go e
where
  go : Err Path → String
    | .orig p => s!"orig:{showPath p}"
    | .failedChild none => "fc none"
    | .failedChild (some c) => "fc " ++ go c

def reportComp (t : Tree Path) (c : CDesc) (sortDone : Bool := false) : List String :=
  let tag := s!"N {showPath c.path}"
  match stateAt t c.path with
  | none => [s!"{tag} missing"]
  | some (_, s, kids) =>
    let ids := List.range c.f.n
    -- a child that completed in THIS run wrote its output; otherwise it holds what it held when the run started
    -- a cache hit is a completion like any other for the composite (start, finish, `ran` through the queue) — only the
    -- function is not invoked and the output stays what it was
    let hit (i : Nat) : Bool := c.hits.contains i && s.st i = .done
    let cls (i : Nat) : String :=
      if isComp (kids i) then "-"
      else if hit i then "prev"
      else if s.st i = .done then "new"
      else if (s.out i).isNd then "ND" else "prev"
    [ s!"{tag} over {phaseOver s.phase}",
      s!"{tag} failed {compFailed s}",
      s!"{tag} exec {showNats s.execLog}",
      s!"{tag} done {showNats (if sortDone then sortNats s.doneLog else s.doneLog)}",
      s!"{tag} st " ++ " ".intercalate (ids.map fun i => s!"{i}:{showSt (s.st i)}"),
      s!"{tag} calls " ++ " ".intercalate (ids.map fun i => s!"{i}:{if hit i then 0 else s.calls i}"),
      s!"{tag} cls " ++ " ".intercalate (ids.map fun i => s!"{i}:{cls i}"),
      s!"{tag} running {showNats s.running}" ]

/-! ### nested fine part: every composite steps its executor children's callbacks in two halves (macros run locally) -/

structure NFTok where
  p : Option Nat
  first : Bool
  kp : Path

def parseNFTok (w : String) : Option NFTok :=
  match w.splitOn ":" with
  | [p, h, k] =>
    let first? := if h = "F" then some true else if h = "T" then some false else none
    match first?, parsePath k with
    | some b, some kp =>
      if p = "L" then some { p := none, first := b, kp := kp }
      else p.toNat?.map fun p => { p := some p, first := b, kp := kp }
    | _, _ => none
  | _ => none

structure GF where
  t : TreeF Path
  toks : List NFTok
  p : Nat := 0
  err : Option String := none
  fuel : Nat

def GF.fail (g : GF) (m : String) : GF := if g.err.isSome then g else { g with err := some m }

/-- the halves recorded for the current main-thread schedule point; `must`: at least one (an idle sleep) -/
partial def pointF (must : Bool) (g : GF) : GF :=
  if g.err.isSome then g else
  let rec go (g : GF) (n : Nat) : GF × Nat :=
    match g.toks with
    | tk :: more =>
      if tk.p = some g.p then
        match splitLast tk.kp with
        | none => (g.fail "bad-token", n)
        | some (q, k) =>
          match nstepF Cfg.repaired g.t q (if tk.first then .cbFirst k else .cbSecond k) with
          | some t' => go { g with t := t', toks := more } (n + 1)
          | none => (g.fail s!"stuck-token-{showPath tk.kp}-at-{g.p}", n)
      else (g, n)
    | [] => (g, n)
  let (g', n) := go g 0
  if must ∧ n = 0 then g'.fail s!"stuck-idle-at-{g.p}" else { g' with p := g'.p + 1 }

def stateAtF (t : TreeF Path) (p : Path) : Option (Dag × ExecFine.F × (Nat → Tree Path)) :=
  match stateAt t.core p with
  | none => none
  | some (d, _, kids) =>
    let rec find (t : TreeF Path) (p : Path) : Option ExecFine.F :=
      match t, p with
      | .leaf, _ => none
      | .comp _ _ f _, [] => some f
      | .comp _ _ _ ks, k :: q => find (ks k) q
    (find t p).map fun f => (d, f, kids)

mutual
partial def runCompF (p : Path) (g : GF) : GF :=
  if g.err.isSome then g else
  if g.fuel = 0 then g.fail "fuel" else
  let g := { g with fuel := g.fuel - 1 }
  match stateAtF g.t p with
  | none => g.fail s!"no-composite-{showPath p}"
  | some (_, f, _) =>
    match f.core.phase with
    | .exited => g
    | .aborted => g
    | .run (i :: _) => runCompF p (ownStepF p .start i g)
    | .run [] =>
      match f.core.queue with
      | (_, i) :: _ => runCompF p (ownStepF p .deliver i g)
      | [] =>
        match ExecFine.visRunning FCfg.repaired f with
        | [] =>
          match nstepF Cfg.repaired g.t p .exit with
          | some t' => { g with t := t' }
          | none => g.fail s!"stuck-exit-{showPath p}"
        | _ :: _ => runCompF p (pointF true g)

partial def ownStepF (p : Path) (a : ActF) (i : Nat) (g : GF) : GF :=
  match stateAtF g.t p with
  | none => g.fail "no-composite"
  | some (d, f, kids) =>
    match nstepF Cfg.repaired g.t p a with
    | none => g.fail s!"stuck-{showPath p}"
    | some t' =>
      let g := { g with t := t' }
      match stateAtF t' p with
      | none => g.fail "no-composite"
      | some (_, f', _) =>
        if f.core.st i = .idle ∧ f'.core.st i ≠ .idle then
          if f'.core.st i = .out then
            if isComp (kids i) ∧ d.onExec i = false then
              -- a macro run locally: its whole loop, then both bookkeeping calls on this thread, an emission point
              let g := runCompF (p ++ [i]) g
              if g.err.isSome then g else
              match nstepF Cfg.repaired g.t p (.cbFirst i) with
              | none => g.fail s!"stuck-complete-{showPath (p ++ [i])}"
              | some t1 =>
                match nstepF Cfg.repaired t1 p (.cbSecond i) with
                | none => g.fail s!"stuck-second-{showPath (p ++ [i])}"
                | some t2 => pointF false { g with t := t2 }
            else g
          else pointF false g
        else g
end

def midPaths (t : TreeF Path) (ds : List CDesc) : List String :=
  (ds.filter fun c => !(t.midAt c.path).isEmpty).map fun c => showPath c.path

structure DSt where
  f : FinDag
  sched : List Tok
  descs : List CDesc := []
  cur : Option Path := none
  nsched : List NTok := []
  nfsched : List NFTok := []
  fsched : List FTok := []
  flow : FlowD := {}
  lastTree : Option (Tree Path) := none

def DSt.init : DSt :=
  { f := { n := 0, slots := [], down := [], starters := [], onExec := [], fails := [], rank := [] }, sched := [] }

/-- the FinDag the flat ops currently write to: the composite named by the last `comp`, or the flat one -/
def DSt.curF (s : DSt) : FinDag :=
  match s.cur with
  | none => s.f
  | some p => ((findDesc s.descs p).map (·.f)).getD s.f

def DSt.setF (s : DSt) (f : FinDag) : DSt :=
  match s.cur with
  | none => { s with f := f }
  | some p => { s with descs := s.descs.map fun c => if c.path == p then { c with f := f } else c }

def DSt.updCur (s : DSt) (g : CDesc → CDesc) : Option DSt :=
  match s.cur with
  | none => none
  | some p => some { s with descs := s.descs.map fun c => if c.path == p then g c else c }

def step' (s : DSt) (ws : List String) : DSt × List String :=
  let f := s.curF
  match ws with
  | ["comp", p] => match parsePath p with
    | some p =>
      if (findDesc s.descs p).isSome then (s, ["bad-op"])
      else ({ s with descs := s.descs ++ [{ path := p }], cur := some p }, [])
    | none => (s, ["bad-op"])
  | "kids" :: ks => match nats ks, s.updCur (fun c => c) with
    | some ks, some _ => ((s.updCur fun c => { c with kids := ks }).getD s, [])
    | _, _ => (s, ["bad-op"])
  | "hits" :: hs => match nats hs, s.updCur (fun c => c) with
    | some hs, some _ => ((s.updCur fun c => { c with hits := hs }).getD s, [])
    | _, _ => (s, ["bad-op"])
  | ["prev"] => match s.updCur (fun c => { c with prev := true }) with
    | some s' => (s', [])
    | none => (s, ["bad-op"])
  | ["n", n] => match n.toNat? with
    | some n => (s.setF { f with n := n, slots := List.replicate n [], down := List.replicate n [],
                                  onExec := List.replicate n false, fails := List.replicate n false,
                                  rank := List.replicate n 0 }, [])
    | none => (s, ["bad-op"])
  | "slot" :: i :: cs => match i.toNat?, nats cs with
    | some i, some cs => (s.setF { f with slots := setAt f.slots i (f.slots.getD i [] ++ [cs]) [] }, [])
    | _, _ => (s, ["bad-op"])
  | "down" :: j :: rs => match j.toNat?, nats rs with
    | some j, some rs => (s.setF { f with down := setAt f.down j rs [] }, [])
    | _, _ => (s, ["bad-op"])
  | "starters" :: ss => match nats ss with
    | some ss => (s.setF { f with starters := ss }, [])
    | none => (s, ["bad-op"])
  | "exec" :: is => match nats is with
    | some is => (s.setF { f with onExec := (List.range f.n).map (fun i => is.contains i) }, [])
    | none => (s, ["bad-op"])
  | "fails" :: is => match nats is with
    | some is => (s.setF { f with fails := (List.range f.n).map (fun i => is.contains i) }, [])
    | none => (s, ["bad-op"])
  | "rank" :: rs => match nats rs with
    | some rs => (s.setF { f with rank := rs }, [])
    | none => (s, ["bad-op"])
  | "sched" :: ts => match ts.mapM parseTok with
    | some ts => ({ s with sched := ts }, [])
    | none => (s, ["bad-op"])
  | "nsched" :: ts => match ts.mapM parseNTok with
    | some ts => ({ s with nsched := ts }, [])
    | none => (s, ["bad-op"])
  | ["run"] =>
    let d := s.f.toDag
    let fuel := 4 * (s.f.n + 2) * (s.f.n + 2) + 16
    let variants : List (String × Cfg) :=
      [("P", Cfg.pinned), ("R", Cfg.repaired),
       ("X", { reportExecFailure := true, startAborts := true }),
       ("Y", { reportExecFailure := false, startAborts := false })]
    let results := variants.map fun (t, c) =>
      let (st, fin) := drive c d fuel (init d) s.sched 0
      (t, c, st, fin)
    (s, [s!"wf {s.f.check}"] ++ (results.map fun (t, _, st, fin) => report t s.f st fin).flatten)
  | "fsched" :: ts => match ts.mapM parseFTok with
    | some ts => ({ s with fsched := ts }, [])
    | none => (s, ["bad-op"])
  | ["frun"] =>
    let d := s.f.toDag
    let fuel := 8 * (s.f.n + 2) * (s.f.n + 2) + 32
    let (st, fin) := driveF Cfg.repaired FCfg.repaired d fuel (initF d) s.fsched 0
    (s, [s!"wf {s.f.check}"] ++ reportFE "Fr" s.f FCfg.repaired st fin)
  | ["wn", n] => match n.toNat? with
    | some n => ({ s with flow := { s.flow with n := n } }, [])
    | none => (s, ["bad-op"])
  | ["wif", i, b] => match i.toNat?, b with
    | some i, "1" => ({ s with flow := { s.flow with ifs := s.flow.ifs ++ [(i, true)] } }, [])
    | some i, "0" => ({ s with flow := { s.flow with ifs := s.flow.ifs ++ [(i, false)] } }, [])
    | _, _ => (s, ["bad-op"])
  | "wconn" :: e :: rs => match e.toNat?, nats rs with
    | some e, some rs => ({ s with flow := { s.flow with conns := s.flow.conns ++ [(e, rs)] } }, [])
    | _, _ => (s, ["bad-op"])
  | "wstarters" :: is => match nats is with
    | some is => ({ s with flow := { s.flow with starters := is } }, [])
    | none => (s, ["bad-op"])
  | "wfails" :: is => match nats is with
    | some is => ({ s with flow := { s.flow with fails := is } }, [])
    | none => (s, ["bad-op"])
  | ["wpre"] => ({ s with flow := { s.flow with pre := true } }, [])
  | ["wcache"] => ({ s with flow := { s.flow with cache := true } }, [])
  | "wexec" :: is => match nats is with
    | some is => ({ s with flow := { s.flow with execs := is } }, [])
    | none => (s, ["bad-op"])
  | "wsched" :: ts => match ts.mapM parseTok with
    | some ts => ({ s with flow := { s.flow with sched := ts } }, [])
    | none => (s, ["bad-op"])
  | ["wrun"] => (s, if s.flow.execs.isEmpty then runFlow s.flow else runFlowX s.flow)
  | ["wpush", i] => match i.toNat? with
    | some i => (s, runPush s.flow i)
    | none => (s, ["bad-op"])
  | "ktab" :: k :: es => match parseKind k, es.mapM (fun e => if e = "1" then some true else if e = "0" then some false else none) with
    | some k, some es => (s, ktabReport "H" KCfg.head k es ++ ktabReport "P" KCfg.proposed k es)
    | _, _ => (s, ["bad-op"])
  | ["nrun"] =>
    let total := (s.descs.map (·.f.n)).sum
    let t0 := build s.descs 16 []
    let g := runComp [] { t := t0, toks := s.nsched, fuel := 16 * (total + 4) * (total + 4) + 64 }
    let status := match g.err with
      | some m => m
      | none => if g.toks.isEmpty then "ok" else "tokens-left"
    ({ s with lastTree := some g.t },
     [s!"wf {s.descs.all (·.f.check)}"] ++ (s.descs.map (reportComp g.t)).flatten ++
        [s!"chain {showErr (raised g.t)}", s!"status {status}"])
  | "nfsched" :: ts => match ts.mapM parseNFTok with
    | some ts => ({ s with nfsched := ts }, [])
    | none => (s, ["bad-op"])
  | ["nfrun"] =>
    let total := (s.descs.map (·.f.n)).sum
    let t0 := build s.descs 16 []
    let g := runCompF [] { t := t0.fine, toks := s.nfsched, fuel := 16 * (total + 4) * (total + 4) + 64 }
    let status := match g.err with
      | some m => m
      | none => if g.toks.isEmpty then "ok" else "tokens-left"
    ({ s with lastTree := some g.t.core },
     [s!"wf {s.descs.all (·.f.check)}"] ++ (s.descs.map (fun c => reportComp g.t.core c true)).flatten ++
        [s!"chain {showErr (raised g.t.core)}", s!"status {status}", s!"mid [{",".intercalate (midPaths g.t s.descs)}]"])
  | ["ncycle", su, ex, em, rc, sf] =>
    -- ... and the recovery save fails (`sf`): unguarded (`O`: its error replaces the run's) / guarded (`Og`)
    let b (w : String) : Option Bool := if w = "1" then some true else if w = "0" then some false else none
    match s.lastTree, b su, b ex, b em, b rc, b sf with
    | some t, some su, some ex, some em, some rc, some sf =>
      let c0 := runCycle false su ex em rc (raised t)
      let blk (tag : String) (guarded : Bool) : List String :=
        let c := withSave guarded sf (none : Option (Err Path)) (c0.1 |> fun _ => { c0 with ret := match c0.ret with
          | .raised e => .raised (some e) | .value => .value | .none => .none | .future => .future })
        let ret := match c.ret with
          | .value => "value" | .none => "none" | .raised (some _) => "raised" | .raised none => "raised-save"
          | .future => "future"
        [ s!"{tag} flags {c.running} {c.failed}", s!"{tag} failedsig {c.failedSignals}", s!"{tag} ransig {c.ranSignals}",
          s!"{tag} recovery {if c.recovery then "yes" else "no"}", s!"{tag} ret {ret}" ]
      (s, blk "O" false ++ blk "Og" true)
    | _, _, _, _, _, _ => (s, ["bad-op"])
  | ["ncycle", su, ex, em, rc] =>
    -- the outermost runnable's own run cycle around the nested run just made
    let b (w : String) : Option Bool := if w = "1" then some true else if w = "0" then some false else none
    match s.lastTree, b su, b ex, b em, b rc with
    | some t, some su, some ex, some em, some rc =>
      let c := runCycle false su ex em rc (raised t)
      let ret := match c.ret with
        | .value => "value" | .none => "none" | .raised _ => "raised" | .future => "future"
      (s, [ s!"O flags {c.running} {c.failed}", s!"O failedsig {c.failedSignals}", s!"O ransig {c.ranSignals}",
            s!"O recovery {if c.recovery then "yes" else "no"}", s!"O ret {ret}" ])
    | _, _, _, _, _ => (s, ["bad-op"])
  | ["sel", p] => match parsePath p with
    | some p => if (findDesc s.descs p).isSome then ({ s with cur := some p }, []) else (s, ["bad-op"])
    | none => (s, ["bad-op"])
  | ["nrerun"] =>
    -- the next run of a history: failed flags cleared, `exec` / `fails` of any composite re-declared after `sel`;
    -- every level restarts with empty all-of triggers
    match s.lastTree with
    | none => (s, ["bad-op"])
    | some t =>
      let total := (s.descs.map (·.f.n)).sum
      let ed : Path → Edit Path := fun p =>
        match findDesc s.descs p with
        | some c =>
          -- a child that answers from its cache neither raises nor goes to the executor
          { fails := fun i => c.f.toDag.fails i && !c.hits.contains i,
            onExec := fun i => c.f.toDag.onExec i && !c.hits.contains i, exc := fun i => p ++ [i], reset := true }
        | none => { fails := fun _ => false, onExec := fun _ => false, exc := fun i => p ++ [i], reset := true }
      let g := runComp [] { t := nrestart t ed, toks := s.nsched, fuel := 16 * (total + 4) * (total + 4) + 64 }
      let status := match g.err with
        | some m => m
        | none => if g.toks.isEmpty then "ok" else "tokens-left"
      ({ s with lastTree := some g.t },
       ["rerun"] ++ (s.descs.map (reportComp g.t)).flatten ++
          [s!"chain {showErr (raised g.t)}", s!"status {status}"])
  | _ => (s, ["bad-op"])

def main : IO Unit := Proto.run DSt.init step'
