#!/bin/sh
# run the thorough tier of the given properties one after the other; logs under ${LOGDIR:-/tmp/st}
cd "$(dirname "$0")/.."
L=${LOGDIR:-/tmp/st}; mkdir -p $L
for p in "$@"; do
  s=$(date +%s); PWH_WORKERS=${PWH_WORKERS:-6} timeout 3000 ./check $p --tier thorough > $L/thorough-$p.log 2>&1; rc=$?
  e=$(date +%s); echo "$p rc=$rc $((e-s))s $(tail -1 $L/thorough-$p.log)"
done
