#!/usr/bin/env python3
"""
Validate one seeded change and run the check of its property against it.

  tools/seedcheck.py <src-dir> <property> <name> [--checks C01,C06] [--tier quick] [--no-tests]

<src-dir> holds patch.diff, demo.py, meta.json (as delivered by a seeding sub-agent, or /verif/seeded/<name>).
Steps, all in a scratch worktree of /repo under /tmp/seedwt/<name> (removed at the end):
  1. `git apply` the patch to the current HEAD of /repo (3-way fallback);
  2. the baseline test-suite with the change: the 137 stable tests of /root/.vp/BASELINE.json must pass;
  3. demo.py on the unchanged /repo (must exit 0) and on the changed tree (must exit non-zero);
  4. `PW_REPO=<scratch> ./check <prop> --tier <tier>` for every listed check: caught = exit 1 with a VIOLATION line.
Writes /verif/seeded/<name>/{patch.diff,demo.py,meta.json} (meta.json: what it breaks, what it needs, what was run,
and which checks caught it by which clause).
"""
import json
import os
import re
import shutil
import subprocess
import sys
import tempfile
import xml.etree.ElementTree as ET
from pathlib import Path

V = Path(__file__).resolve().parents[1]
REPO = Path("/repo")
PY = "/venv/bin/python"


def sh(cmd, cwd=None, env=None, timeout=1800):
    e = dict(os.environ)
    if env:
        e.update(env)
    r = subprocess.run(cmd, cwd=cwd, env=e, shell=isinstance(cmd, str), capture_output=True, text=True, timeout=timeout)
    return r.returncode, r.stdout + r.stderr


def main():
    a = sys.argv[1:]
    src, prop, name = Path(a[0]), a[1], a[2]
    checks = [prop]
    tier = "quick"
    do_tests = True
    benign = False
    i = 3
    while i < len(a):
        if a[i] == "--checks":
            checks = a[i + 1].split(",")
            i += 2
        elif a[i] == "--tier":
            tier = a[i + 1]
            i += 2
        elif a[i] == "--no-tests":
            do_tests = False
            i += 1
        elif a[i] == "--benign":
            # a change that PRESERVES the property: the demo must exit 0 on both trees, and a check that reports a
            # violation on it is a false alarm (kept under /verif/benign/<name>)
            benign = True
            i += 1
        else:
            i += 1
    wt = Path("/tmp/seedwt") / name
    wt.parent.mkdir(exist_ok=True)
    if wt.exists():
        sh(["git", "-C", str(REPO), "worktree", "remove", "--force", str(wt)])
        shutil.rmtree(wt, ignore_errors=True)
    rc, out = sh(["git", "-C", str(REPO), "worktree", "add", "-q", "--detach", str(wt), "HEAD"])
    assert rc == 0, out
    res = {"property": prop, "name": name, "repo_head": sh(["git", "-C", str(REPO), "log", "-1", "--format=%h"])[1].strip()}
    try:
        patch = (src / "patch.diff").read_text()
        rc, out = sh(["git", "apply", str((src / "patch.diff").resolve())], cwd=wt)
        if rc != 0:
            rc, out = sh(["git", "apply", "--3way", str((src / "patch.diff").resolve())], cwd=wt)
        res["applies"] = rc == 0
        if rc != 0:
            res["apply_error"] = out[-800:]
            print(json.dumps(res, indent=1))
            return 2
        # refresh the diff against the current HEAD (context may have shifted)
        patch = sh(["git", "diff", "HEAD"], cwd=wt)[1]
        env = {"PYTHONPATH": str(wt), "PYTHONDONTWRITEBYTECODE": "1"}
        rc, out = sh([PY, "-c", "import pyiron_workflow; print(pyiron_workflow.__file__)"], cwd=wt, env=env)
        res["imports"] = rc == 0 and str(wt) in out
        if do_tests:
            base = json.loads(Path("/root/.vp/BASELINE.json").read_text())
            stable = set(base["stable_pass"])
            junit = tempfile.mktemp(suffix=".xml")
            rc, out = sh([PY, "-m", "pytest", "-q", "-p", "no:cacheprovider", "--timeout=900",
                          "--continue-on-collection-errors", f"--junitxml={junit}"], cwd=wt, env=env, timeout=1200)
            passed = set()
            try:
                for tc in ET.parse(junit).getroot().iter("testcase"):
                    if not any(ch.tag in ("failure", "error", "skipped") for ch in tc):
                        passed.add(f"{tc.get('classname')}::{tc.get('name')}")
            finally:
                if os.path.exists(junit):
                    os.unlink(junit)
            missing = sorted(stable - passed)
            res["tests_summary"] = out.strip().splitlines()[-1] if out.strip() else ""
            res["stable_tests_missing"] = missing
            res["tests_ok"] = not missing
            shutil.rmtree(wt / "test", ignore_errors=True)
        # demo
        demo = src / "demo.py"
        if demo.exists():
            for tag, tree in (("unchanged", REPO), ("changed", wt)):
                d = tempfile.mkdtemp(prefix="seeddemo-")
                try:
                    rc, out = sh([PY, str(demo.resolve())], cwd=d, env={"PYTHONPATH": str(tree), "PYTHONDONTWRITEBYTECODE": "1"},
                                 timeout=300)
                except subprocess.TimeoutExpired:
                    rc, out = 124, "timeout"
                finally:
                    shutil.rmtree(d, ignore_errors=True)
                res[f"demo_{tag}_rc"] = rc
                res[f"demo_{tag}_out"] = out.strip()[-600:]
            res["demo_ok"] = res["demo_unchanged_rc"] == 0 and ((res["demo_changed_rc"] == 0) if benign else (res["demo_changed_rc"] != 0))
        # our checks
        res["checks"] = {}
        for c in checks:
            try:
                rc, out = sh([str(V / "check"), c, "--tier", tier], cwd=V,
                             env={"PW_REPO": str(wt), "PWH_WORKERS": os.environ.get("PWH_WORKERS", "8"),
                                  "PWH_SCRATCH_OUT": f"/tmp/seedwt/out-{name}"}, timeout=2400)
            except subprocess.TimeoutExpired:
                rc, out = 124, "timeout"
            viol = [l for l in out.splitlines() if l.startswith("VIOLATION")]
            clauses = sorted(set(re.findall(r"\[violation\] clause=(\S+)", out)))
            summ = [l for l in out.splitlines() if l.startswith(f"[{c}]")]
            res["checks"][c] = {"rc": rc, "caught": rc == 1 and bool(viol), "violations": len(viol), "clauses": clauses,
                                "no_failing_input": any("no-failing-input-found" in v for v in viol),
                                "summary": summ[-1] if summ else out[-300:],
                                "detail": [l[:300] for l in out.splitlines() if l.startswith(("[violation]", "[diverge]", "[proof]"))][:12]}
        res["caught_by"] = [c for c, r in res["checks"].items() if r["caught"]]
        # keep
        dst = V / ("benign" if benign else "seeded") / name
        if benign:
            res["benign"] = True
            res["false_alarms"] = res["caught_by"]
        dst.mkdir(parents=True, exist_ok=True)
        (dst / "patch.diff").write_text(patch)
        if demo.exists() and demo.resolve() != (dst / "demo.py").resolve():
            shutil.copy(demo, dst / "demo.py")
        meta = {}
        if (src / "meta.json").exists():
            try:
                meta = json.loads((src / "meta.json").read_text())
            except Exception:  # noqa: BLE001
                meta = {}
        prev = (meta.get("verification") or {}) if isinstance(meta, dict) else {}
        if not do_tests:
            # keep the test-suite verdict of the earlier full validation (the patch itself is unchanged)
            for k in ("tests_summary", "stable_tests_missing", "tests_ok"):
                if k in prev and k not in res:
                    res[k] = prev[k]
            if "tests_ok" in res:
                res["tests_note"] = "test-suite verdict carried over from the full validation of this patch"
        meta = {k: v for k, v in meta.items() if k not in ("verification",)}
        meta["property"] = prop
        meta["verification"] = res
        (dst / "meta.json").write_text(json.dumps(meta, indent=1))
        print(json.dumps({k: res[k] for k in res if k not in ("demo_unchanged_out",)}, indent=1))
        return 0
    finally:
        sh(["git", "-C", str(REPO), "worktree", "remove", "--force", str(wt)])
        shutil.rmtree(wt, ignore_errors=True)
        shutil.rmtree(f"/tmp/seedwt/out-{name}", ignore_errors=True)


if __name__ == "__main__":
    sys.exit(main())
