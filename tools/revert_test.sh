#!/bin/sh
# tools/revert_test.sh <prop> <sha>  : run the check against a scratch copy of /repo with commit <sha> reverted
set -e
P=$1; SHA=$2
D=$(mktemp -d /tmp/rev.XXXXXX)
rsync -a --exclude .git --exclude '*.pyc' /repo/pyiron_workflow "$D"/
(cd /repo && git show "$SHA" -- pyiron_workflow) | (cd "$D" && patch -R -p1 -s)
(cd /verif && PW_REPO="$D" ./check "$P" ${TIER:+--tier $TIER} 2>&1 | tail -6)
rm -rf "$D"
