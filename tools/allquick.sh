#!/bin/sh
cd /verif
for p in C01 C02 C03 C04 C05 C06 C07 C08 C09 C10 C11 C12 C13 C14 C15 C16 C17 C18 C19; do
  [ -f harness/pwh/$(echo $p | tr A-Z a-z).py ] || continue
  out=$(PWH_WORKERS=${PWH_WORKERS:-6} timeout 1500 ./check $p --tier quick 2>&1); rc=$?
  echo "$p rc=$rc $(echo "$out" | grep -E "^\[C" | tail -1) $(echo "$out" | grep -c '^VIOLATION') viol"
done
