#!/bin/sh
# re-run every stored seeded change (must be caught) and every stored benign change (must be silent) against /repo HEAD
# usage: tools/sweep_seeds.sh [jobs]   → /tmp/st/sweep-*.log, summary on stdout
cd "$(dirname "$0")/.."
J=${1:-3}
mkdir -p /tmp/st
ls -d seeded/*/ | sed 's#seeded/##; s#/##' | while read n; do
  p=$(echo $n | cut -d- -f1)
  nb=$(python3 -c "import json;print(json.load(open('seeded/$n/meta.json')).get('neutralised_by',''))")
  [ -n "$nb" ] && continue
  extra=$(python3 -c "
import json
d=json.load(open('seeded/$n/meta.json')); cb=(d.get('verification') or {}).get('caught_by') or []
print(','.join(sorted(set(['$p']+cb))))")
  echo "seed $n $p $extra"
done > /tmp/st/sweep-list.txt
ls -d benign/*/ | sed 's#benign/##; s#/##' | while read n; do p=$(echo $n | cut -d- -f1); echo "benign $n $p $p"; done >> /tmp/st/sweep-list.txt
cat /tmp/st/sweep-list.txt | xargs -P $J -L 1 sh -c '
  mode=$0; n=$1; p=$2; checks=$3
  if [ "$mode" = benign ]; then
    PWH_WORKERS=4 PWH_CASE_TIMEOUT=30 timeout 3000 tools/seedcheck.py benign/$n $p $n --benign --no-tests --checks $checks > /tmp/st/sweep-$n.json 2>&1
  else
    PWH_WORKERS=4 PWH_CASE_TIMEOUT=30 timeout 3000 tools/seedcheck.py seeded/$n $p $n --no-tests --checks $checks > /tmp/st/sweep-$n.json 2>&1
  fi
  python3 - "$mode" "$n" "$p" <<PY
import json,sys
mode,n,p=sys.argv[1:4]
t=open(f"/tmp/st/sweep-{n}.json").read()
try:
    j=json.loads(t[t.index("{"):])
    cb=j.get("caught_by")
    ok=(not cb) if mode=="benign" else (p in (cb or []))
    nfi=[c for c,v in j.get("checks",{}).items() if v.get("no_failing_input")]
    print(("OK  " if ok else "BAD "), mode, n, "applies",j.get("applies"),"caught_by",cb, "corr-only" if nfi else "", {c:v["clauses"][:3] for c,v in j.get("checks",{}).items()})
except Exception as e:
    print("BAD ", mode, n, "PARSE-FAIL", t[-200:].replace("\n"," "))
PY
'
