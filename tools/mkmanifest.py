#!/usr/bin/env python3
"""Assemble MANIFEST.json from manifest.d/*.json fragments (one per property) + the property list."""
import json
from pathlib import Path

V = Path(__file__).resolve().parents[1]
props = [json.loads(l)["id"] for l in (V / "properties.jsonl").read_text().splitlines() if l.strip()]
checks, na = [], []
for pid in props:
    f = V / "manifest.d" / f"{pid}.json"
    ready = (V / "manifest.d" / "ready.txt").read_text().split()
    if not f.exists() or pid not in ready:
        na.append({"property_id": pid, "reason": "not yet claimed: model/theorems/correspondence for this property are not built yet (work in progress, see DESIGN.md §11)"})
        continue
    d = json.loads(f.read_text())
    if "not_applicable" in d:
        na.append({"property_id": pid, "reason": d["not_applicable"]})
        continue
    checks.append({
        "property_id": pid,
        "quick_cmd": f"./check {pid} --tier quick",
        "thorough_cmd": f"./check {pid} --tier thorough",
        "evidence_file": f"evidence/{pid}.json",
        "replay_cmd_template": f"./check {pid} --replay {{path}}",
        "engine": "pwh",
        "level_claimed": {"category": "proof", "text": d["text"], "design_ref": d.get("design_ref", f"DESIGN.md §5/{pid}")},
        "level_note": d["note"],
        "technique": d.get("technique", "Lean 4 theorem over hand-written executable model + lock-step correspondence check against the real code + oracle search"),
    })
m = {
    "version": 1,
    "setup_cmd": "./tools/setup.sh",
    "hooks": {
        "guard": "PYIRON_WORKFLOW_VERIF",
        "enable": "none needed: all instrumentation is applied from the harness process (module attribute rebinding, class-level wrappers, a custom Executor); the checks export PYIRON_WORKFLOW_VERIF=1 but /repo contains no guarded code",
        "baseline_off_cmd": "cd /repo && /venv/bin/python -m pytest -ra -q -p no:cacheprovider --timeout=900 --continue-on-collection-errors",
        "source_commits": [],
        "add_only": True,
    },
    "engines": [{
        "name": "pwh",
        "path": "harness/pwh + lean/",
        "serves_properties": [c["property_id"] for c in checks],
        "kind_free_text": "Lean 4 package (executable model PwVerif/Model, lemmas PwVerif/Proofs, property theorems PwVerif/Props, line-protocol drivers Driver/) + Python harness that drives the real pyiron_workflow objects and the model on the same generated cases, diffs observations, and evaluates the property as an oracle on the implementation",
    }],
    "checks": checks,
    "not_applicable": na,
    "notes": "Every check: (1) lake build + source audit (no sorry/axiom/native_decide) + #print axioms of each property theorem, (2) correspondence model vs /repo working tree on seeded generated cases, (3) property oracle on the implementation. See DESIGN.md.",
}
# known findings: merge the per-property fragments into the single committed file
kf = []
for f in sorted((V / "known_findings.d").glob("*.json")):
    kf.extend(json.loads(f.read_text()))
(V / "known_findings.json").write_text(json.dumps({"version": 1, "findings": kf}, indent=1) + "\n")
(V / "MANIFEST.json").write_text(json.dumps(m, indent=1) + "\n")
print(f"{len(checks)} checks, {len(na)} not_applicable")
# the AST pins follow /repo's HEAD (run with the interpreter the checks use)
import subprocess
subprocess.run(["/venv/bin/python", str(V / "tools" / "mkpins.py")], check=False)
