#!/bin/sh
# run the pinned baseline suite on /repo (or $1) and report which of the 137 stable tests do not pass
T=${1:-/repo}
J=$(mktemp --suffix=.xml)
cd $T && PYTHONPATH=$T /venv/bin/python -m pytest -ra -q -p no:cacheprovider --timeout=900 --continue-on-collection-errors --junitxml=$J 2>&1 | tail -1
python3 - "$J" <<'PY'
import json, sys, xml.etree.ElementTree as ET
stable = set(json.load(open('/root/.vp/BASELINE.json'))['stable_pass'])
passed = set()
for tc in ET.parse(sys.argv[1]).getroot().iter('testcase'):
    if not any(ch.tag in ('failure', 'error', 'skipped') for ch in tc):
        passed.add(f"{tc.get('classname')}::{tc.get('name')}")
missing = sorted(stable - passed)
print("stable tests:", len(stable), "missing:", missing)
sys.exit(1 if missing else 0)
PY
rc=$?; rm -f $J; rm -rf $T/test; exit $rc
