#!/bin/sh
# tools/mutant.sh <prop> <file-relative-to-repo> <python-expr-old> <python-expr-new>   (literal replace, first occurrence)
set -e
P=$1; F=$2; OLD=$3; NEW=$4
D=$(mktemp -d /tmp/mut.XXXXXX)
rsync -a --exclude .git --exclude '*.pyc' /repo/pyiron_workflow "$D"/
python3 - "$D/$F" "$OLD" "$NEW" <<'PY'
import sys
p, old, new = sys.argv[1:4]
s = open(p).read()
assert old in s, "pattern not found"
open(p, "w").write(s.replace(old, new, 1))
PY
(cd /verif && PW_REPO="$D" ./check "$P" ${TIER:+--tier $TIER} 2>&1 | tail -4)
rm -rf "$D"
