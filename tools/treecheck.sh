#!/bin/sh
# run the quick tier of every (or the given) property against another tree: tools/treecheck.sh <tree> [ids...]
# evidence/replays go to a scratch dir, /verif/evidence is left alone
cd "$(dirname "$0")/.."
T=$1; shift
IDS=${*:-C01 C02 C03 C04 C05 C06 C07 C08 C09 C10 C11 C12 C13 C14 C15 C16 C17 C18 C19}
for p in $IDS; do
  out=$(PW_REPO=$T PWH_SCRATCH_OUT=/tmp/treecheck-out PWH_WORKERS=${PWH_WORKERS:-6} timeout 1800 ./check $p --tier ${TIER:-quick} 2>&1); rc=$?
  echo "$p rc=$rc $(echo "$out" | grep -E "^\[C" | tail -1)"
  echo "$out" | grep -E "^\[violation\]|^\[proof\]|^VIOLATION" | cut -c1-400 | head -6
done
rm -rf /tmp/treecheck-out
