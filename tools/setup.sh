#!/bin/sh
# MANIFEST.setup_cmd: build the Lean modules every claimed check depends on (props, proofs, models, driver imports).
# Work-in-progress modules of properties that are not claimed yet are not built here.
HERE="$(cd "$(dirname "$0")/.." && pwd)"
cd "$HERE/lean" || exit 2
MODS=$(PYTHONPATH="$HERE/harness" /venv/bin/python - <<'PY'
import importlib, json, sys
from pathlib import Path
from pwh import core
V = core.VERIF
ready = (V / "manifest.d" / "ready.txt").read_text().split()
roots = []
for pid in ready:
    m = importlib.import_module(f"pwh.{pid.lower()}")
    roots.append(m.PROP_FILE)
    if getattr(m, "DRIVER", None):
        roots.append(m.DRIVER)
mods = sorted({str(p.relative_to(core.LEAN)).removesuffix(".lean").replace("/", ".")
               for p in core.lean_closure(roots) if p.relative_to(core.LEAN).parts[0] == "PwVerif"})
print(" ".join(mods))
PY
)
[ -n "$MODS" ] || { echo "no modules"; exit 2; }
exec lake build $MODS
