import ast, re, sys, pathlib
# reword: every string fragment of the first argument of a raised exception is upper-cased (outside {…} and escapes)
root = pathlib.Path(sys.argv[1])
n = 0
def mangle(seg):
    out=[]; depth=0; i=0
    while i < len(seg):
        c=seg[i]
        if c=="\\" and i+1<len(seg):
            out.append(seg[i:i+2]); i+=2; continue
        if c=="{": depth+=1
        elif c=="}": depth=max(0,depth-1)
        out.append(c.upper() if depth==0 else c); i+=1
    return "".join(out)
for f in root.rglob("*.py"):
    src = f.read_text()
    tree = ast.parse(src)
    lines = src.split("\n")
    spots = set()
    for node in ast.walk(tree):
        if isinstance(node, ast.Raise) and isinstance(node.exc, ast.Call) and node.exc.args:
            a = node.exc.args[0]
            if isinstance(a, (ast.Constant, ast.JoinedStr)) and (not isinstance(a, ast.Constant) or isinstance(a.value, str)):
                for ln in range(a.lineno - 1, a.end_lineno):
                    spots.add(ln)
    for ln in spots:
        line = lines[ln]
        # single-line string literals on this line only
        def rep(m):
            global n
            if "b" in m.group(1).lower() or "r" in m.group(1).lower(): return m.group(0)
            n += 1
            isf = "f" in m.group(1).lower()
            body = m.group(3)
            return m.group(1)+m.group(2)+(mangle(body) if isf else re.sub(r"(\\.)|([a-z])", lambda k: k.group(1) or k.group(2).upper(), body))+m.group(2)
        lines[ln] = re.sub(r"\b([rRbBfFuU]{0,2})(\"|')((?:\\.|(?!\2).)*)\2", rep, line) if '"""' not in line and "'''" not in line else line
    f.write_text("\n".join(lines))
print("fragments changed:", n)
