#!/usr/bin/env python3
"""
Prepare a seeding round: for each property id given, a scratch worktree /tmp/seed<R>/<id> of /repo HEAD holding only
PROPERTY.json (that property's line of properties.jsonl) and TASK.md (the generic task + one-line summaries of the
changes earlier rounds produced, so that the new ones differ in kind).  Nothing else from /verif goes in.

  tools/seeding/mkround.py <round-number> C01 C02 ...
"""
import json
import subprocess
import sys
from pathlib import Path

V = Path(__file__).resolve().parents[2]
R = sys.argv[1]
ids = sys.argv[2:]
props = {json.loads(l)["id"]: json.loads(l) for l in (V / "properties.jsonl").read_text().splitlines() if l.strip()}
tmpl = (V / "tools/seeding/TASK_TEMPLATE.md").read_text().replace("/tmp/seed2/", f"/tmp/seed{R}/")
root = Path(f"/tmp/seed{R}")
root.mkdir(exist_ok=True)
for pid in ids:
    wt = root / pid
    if wt.exists():
        subprocess.run(["git", "-C", "/repo", "worktree", "remove", "--force", str(wt)])
    subprocess.run(["git", "-C", "/repo", "worktree", "add", "-q", "--detach", str(wt), "HEAD"], check=True)
    (wt / "PROPERTY.json").write_text(json.dumps(props[pid], indent=1))
    prev = []
    for m in sorted((V / "seeded").glob(f"{pid}-*/meta.json")):
        d = json.loads(m.read_text())
        prev.append(f"- {d.get('summary', '')} (needs: {d.get('needs_to_manifest', '')})")
    extra = ("\n\n## Later round\n\nEarlier, independent rounds already produced the changes summarised below for this property. "
             "Produce three changes that are DIFFERENT IN KIND from all of them (other functions, other clauses of the statement, "
             "other mechanisms, other things needed to manifest) — the point is to probe parts of the property the earlier rounds "
             "did not touch. Prefer changes that need nesting (macros in macros, for-loops, while-loops), executors with particular "
             "completion orders, pickling/saving between steps, re-runs after edits or failures, replacing or removing nodes, "
             "unusual-but-legal inputs, or two cooperating sites. Re-read the whole statement and quantifier: every clause and every "
             "'for every …' is fair game.\n\n" + "\n".join(prev) + "\n")
    (wt / "TASK.md").write_text(tmpl + extra)
    (root / f"{pid}-out").mkdir(exist_ok=True)
    print(pid, "ready at", wt, "previous:", len(prev))
