#!/usr/bin/env python3
"""
Prepare a round of PROPERTY-PRESERVING changes (false-alarm probe): for each property id a scratch worktree
/tmp/benign/<id> of /repo HEAD holding only PROPERTY.json and TASK.md (tools/seeding/BENIGN_TEMPLATE.md).

  tools/seeding/mkbenign.py C01 C02 ...
"""
import json
import subprocess
import sys
from pathlib import Path

V = Path(__file__).resolve().parents[2]
props = {json.loads(l)["id"]: json.loads(l) for l in (V / "properties.jsonl").read_text().splitlines() if l.strip()}
tmpl = (V / "tools/seeding/BENIGN_TEMPLATE.md").read_text()
root = Path("/tmp/benign")
root.mkdir(exist_ok=True)
for pid in sys.argv[1:]:
    wt = root / pid
    if wt.exists():
        subprocess.run(["git", "-C", "/repo", "worktree", "remove", "--force", str(wt)])
    subprocess.run(["git", "-C", "/repo", "worktree", "add", "-q", "--detach", str(wt), "HEAD"], check=True)
    (wt / "PROPERTY.json").write_text(json.dumps(props[pid], indent=1))
    (wt / "TASK.md").write_text(tmpl)
    (root / f"{pid}-out").mkdir(exist_ok=True)
    print(pid, "ready at", wt)
