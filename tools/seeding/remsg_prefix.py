import ast, re, sys, pathlib
root = pathlib.Path(sys.argv[1])
n = 0
for f in root.rglob("*.py"):
    src = f.read_text()
    try:
        tree = ast.parse(src)
    except SyntaxError:
        continue
    lines = src.split("\n")
    spots = []
    for node in ast.walk(tree):
        if isinstance(node, ast.Raise) and isinstance(node.exc, ast.Call) and node.exc.args:
            a = node.exc.args[0]
            if isinstance(a, (ast.Constant, ast.JoinedStr)) and (not isinstance(a, ast.Constant) or isinstance(a.value, str)):
                spots.append((a.lineno - 1, a.col_offset))
    for (ln, col) in sorted(set(spots), reverse=True):
        # col_offset is in utf8 bytes; lines here are ascii mostly
        line = lines[ln]
        m = re.match(r"([rRbBfFuU]{0,2})(\"\"\"|'''|\"|')", line[col:])
        if not m or "b" in m.group(1).lower():
            continue
        k = col + m.end()
        lines[ln] = line[:k] + "pw: " + line[k:]
        n += 1
    f.write_text("\n".join(lines))
print("messages changed:", n)
