#!/bin/sh
# tools/seeding/evalbatch.sh seed <round-dir> P:k:nk[:checks] ...   → seeded/P-nk
# tools/seeding/evalbatch.sh benign /tmp/benign P:k ...             → benign/P-bk
cd "$(dirname "$0")/../.."
mode=$1; root=$2; shift 2
mkdir -p /tmp/st
for spec in "$@"; do
  p=$(echo $spec | cut -d: -f1); k=$(echo $spec | cut -d: -f2); nk=$(echo $spec | cut -d: -f3); extra=$(echo $spec | cut -d: -f4)
  if [ "$mode" = benign ]; then name=$p-b$k; flag=--benign; else name=$p-$nk; flag=; fi
  PWH_WORKERS=${PWH_WORKERS:-6} PWH_CASE_TIMEOUT=30 timeout 3000 tools/seedcheck.py $root/$p-out/$k $p $name $flag ${extra:+--checks $extra} > /tmp/st/$mode-$name.json 2>&1
  python3 - <<PY
import json
t=open('/tmp/st/$mode-$name.json').read()
try:
    j=json.loads(t[t.index('{'):])
    print('$name','applies',j.get('applies'),'tests_ok',j.get('tests_ok'),'demo_ok',j.get('demo_ok'),'caught_by',j.get('caught_by'), {c:(v['clauses'],v['summary'][-90:]) for c,v in j.get('checks',{}).items()})
except Exception as e:
    print('$name','PARSE-FAIL',t[-300:])
PY
done
