#!/venv/bin/python
"""
Record AST digests of the source files each property is anchored in (properties.jsonl → anchors.files) into pins.json.
A check whose anchored files differ from the pinned digests is not thereby failing — it only explores more
(see engine.run_check: three generator streams instead of one in the quick tier), because a change to modelled
code is exactly when the sampled correspondence deserves more effort. Re-run after every commit to /repo.
"""
import ast
import hashlib
import json
import os
from pathlib import Path

V = Path(__file__).resolve().parents[1]
REPO = Path(os.environ.get("PW_REPO", "/repo"))


def digest(path: Path) -> str:
    try:
        return hashlib.sha256(ast.dump(ast.parse(path.read_text())).encode()).hexdigest()[:16]
    except Exception as e:  # noqa: BLE001
        return f"unreadable:{type(e).__name__}"


def anchors():
    out = {}
    for l in (V / "properties.jsonl").read_text().splitlines():
        if l.strip():
            p = json.loads(l)
            out[p["id"]] = sorted(set(p.get("anchors", {}).get("files", [])))
    return out


if __name__ == "__main__":
    a = anchors()
    files = sorted({f for fs in a.values() for f in fs})
    pins = {f: digest(REPO / f) for f in files}
    import sys

    (V / "pins.json").write_text(json.dumps({"python": list(sys.version_info[:2]), "files": pins, "anchors": a},
                                            indent=1) + "\n")
    print(len(pins), "files pinned")
