# run the check with known findings taken from the fragment known_findings.d/C04.json (before the lead merges it)
import json, sys
from pwh import core, engine
frag = json.load(open("/verif/known_findings.d/C04.json"))
core.load_known_findings = lambda prop: [f for f in frag if f.get("property") == prop]
sys.exit(engine.run_check("pwh.c04", sys.argv[1] if len(sys.argv) > 1 else "quick"))
